package main

import (
	"encoding/json"
	"fmt"
	"go/types"
	"os"
	"path/filepath"
	"sort"
	"strings"
	"sync"
	"time"

	"golang.org/x/tools/go/packages"
	"golang.org/x/tools/go/ssa"
	"golang.org/x/tools/go/ssa/ssautil"
)

type Limits struct {
	MaxPaths       int    `json:"max_paths"`
	MaxDecisions   int    `json:"max_decisions"`
	MaxSteps       int    `json:"max_steps"`
	MaxBlockVisits int    `json:"max_block_visits"`
	MaxDepth       int    `json:"max_depth"`
	MaxThreads     int    `json:"max_threads"`
	Preempt        int    `json:"preempt"`
	MaxEnvFires    int    `json:"max_env_fires"`
	MapOrder       string `json:"map_order"`
	SolverTimeoutMs int   `json:"solver_timeout_ms"`
	PrimaryTimeoutMs int  `json:"primary_timeout_ms"`
}

type Unit struct {
	Name      string              `json:"name"`
	Pkg       string              `json:"pkg"`     // directory below /repo
	Harness   []string            `json:"harness"` // files (relative to the cfg dir) overlaid into Pkg
	Extra     map[string]string   `json:"extra_overlays"` // repo-relative target path -> file in the cfg dir (helpers overlaid into other packages)
	Entries   []string            `json:"entries"`
	Nop       []string            `json:"nop"`
	NopFuncs  []string            `json:"nop_funcs"`
	CrandNonzero bool             `json:"crand_nonzero"` // crypto/rand.Int draws are >= 1 (for callers that redraw on zero)
	Havoc     []string            `json:"havoc"` // dependency functions modelled by signature only (error or arbitrary success)
	ProtoBytesLens []int          `json:"proto_bytes_lens"`
	SkipInit  []string            `json:"skip_init"`
	Replace   map[string]string   `json:"replace"`
	PreemptMem []string           `json:"preempt_mem"`
	MustReach map[string][]string `json:"must_reach"`
	Replay    string              `json:"replay"` // native | engine
	Limits
	Thorough *Limits `json:"thorough"`
	Bounds   map[string]string `json:"bounds"` // tier -> description
	Assumptions []string `json:"assumptions"`
	Stubs     []string `json:"stubs"`
	Validate  int      `json:"validate"` // number of translator-validation vectors (quick)
	NoValidate bool    `json:"no_validate"`
	NoMerge   bool     `json:"no_merge"`
	PanicFreedom bool  `json:"panic_freedom"` // the property of these entries is the absence of panics on every path (no explicit assertion needed)
	ProtoDepth int     `json:"proto_depth"`
	GroupOrder string  `json:"group_order"` // prime order of the modelled bn256 groups (decimal); default: the real BN254 order
	Race      bool     `json:"race"` // happens-before data race detection on repository code
	StressRuns int     `json:"stress_runs"` // native runs attempted to reproduce an engine-confirmed schedule-dependent violation
	NoDivAxiom bool    `json:"no_div_axiom"`
	SchedFIFO bool     `json:"sched_fifo"` // at forced switches run the lowest-numbered runnable goroutine instead of forking over all (sequential harnesses with incidental goroutines)
}

type Config struct {
	ID    string `json:"id"`
	Units []Unit `json:"units"`
}

type Prog struct {
	prog       *ssa.Program
	pkgs       []*packages.Package
	harnessSSA *ssa.Package
	harnessPkg string
	modPath    string
	cfg        *Unit
	mu         sync.Mutex
	tier       string
	repo       string
	cfgDir     string
	native     *nativeBin
}

var defaultNop = []string{
	"github.com/ipfs/go-log", "go.uber.org/zap", "log", "github.com/keep-network/keep-common/pkg/logging",
}

func applyDefaults(u *Unit, tier string) {
	if tier == "thorough" && u.Thorough != nil {
		t := u.Thorough
		if t.MaxPaths != 0 {
			u.MaxPaths = t.MaxPaths
		}
		if t.MaxDecisions != 0 {
			u.MaxDecisions = t.MaxDecisions
		}
		if t.MaxSteps != 0 {
			u.MaxSteps = t.MaxSteps
		}
		if t.Preempt != 0 {
			u.Preempt = t.Preempt
		}
		if t.MaxEnvFires != 0 {
			u.MaxEnvFires = t.MaxEnvFires
		}
		if t.MapOrder != "" {
			u.MapOrder = t.MapOrder
		}
		if t.SolverTimeoutMs != 0 {
			u.SolverTimeoutMs = t.SolverTimeoutMs
		}
	}
	def := func(p *int, v int) {
		if *p == 0 {
			*p = v
		}
	}
	def(&u.MaxPaths, 20000)
	def(&u.MaxDecisions, 400)
	def(&u.MaxSteps, 3000000)
	def(&u.MaxBlockVisits, 20000)
	def(&u.MaxDepth, 400)
	def(&u.MaxThreads, 12)
	def(&u.MaxEnvFires, 2)
	def(&u.SolverTimeoutMs, 20000)
	def(&u.PrimaryTimeoutMs, 2500)
	if u.MapOrder == "" {
		u.MapOrder = "insertion"
	}
	if u.Replay == "" {
		u.Replay = "native"
	}
	u.Nop = append(u.Nop, defaultNop...)
}

func loadProg(repo, cfgDir string, u *Unit, tier string) (*Prog, error) {
	overlay := map[string][]byte{}
	pkgDir := filepath.Join(repo, u.Pkg)
	pkgName, err := packageNameOf(pkgDir)
	if err != nil {
		return nil, err
	}
	for _, h := range u.Harness {
		b, err := os.ReadFile(filepath.Join(cfgDir, h))
		if err != nil {
			return nil, err
		}
		overlay[filepath.Join(pkgDir, "zz_verif_"+filepath.Base(h))] = b
	}
	overlay[filepath.Join(pkgDir, "zz_verif_prelude.go")] = []byte(preludeSymbolic(pkgName))
	for target, src := range u.Extra {
		b, err := os.ReadFile(filepath.Join(cfgDir, src))
		if err != nil {
			return nil, err
		}
		overlay[filepath.Join(repo, target)] = b
	}
	cfg := &packages.Config{
		Mode: packages.NeedName | packages.NeedFiles | packages.NeedCompiledGoFiles | packages.NeedImports |
			packages.NeedDeps | packages.NeedTypes | packages.NeedSyntax | packages.NeedTypesInfo | packages.NeedTypesSizes | packages.NeedModule,
		Dir:     repo,
		Overlay: overlay,
		Env:     append(os.Environ(), "GOFLAGS=-mod=mod", "GOPROXY=off", "GOSUMDB=off", "GOTOOLCHAIN=local", "CGO_ENABLED=0"),
	}
	pkgs, err := packages.Load(cfg, "./"+u.Pkg)
	if err != nil {
		return nil, err
	}
	nerr := 0
	packages.Visit(pkgs, nil, func(p *packages.Package) {
		for _, e := range p.Errors {
			if nerr < 20 {
				fmt.Fprintf(os.Stderr, "load error: %s: %v\n", p.PkgPath, e)
			}
			nerr++
		}
	})
	if nerr > 0 {
		return nil, fmt.Errorf("%d package load errors", nerr)
	}
	prog, spkgs := ssautil.AllPackages(pkgs, ssa.InstantiateGenerics)
	P := &Prog{prog: prog, pkgs: pkgs, cfg: u, tier: tier, repo: repo, cfgDir: cfgDir}
	P.harnessSSA = spkgs[0]
	P.harnessPkg = pkgs[0].PkgPath
	if pkgs[0].Module != nil {
		P.modPath = pkgs[0].Module.Path
	} else {
		P.modPath = "github.com/keep-network/keep-core"
	}
	P.harnessSSA.Build()
	return P, nil
}

func packageNameOf(dir string) (string, error) {
	ents, err := os.ReadDir(dir)
	if err != nil {
		return "", err
	}
	for _, e := range ents {
		n := e.Name()
		if strings.HasSuffix(n, ".go") && !strings.HasSuffix(n, "_test.go") {
			b, err := os.ReadFile(filepath.Join(dir, n))
			if err != nil {
				continue
			}
			for _, line := range strings.Split(string(b), "\n") {
				line = strings.TrimSpace(line)
				if strings.HasPrefix(line, "package ") {
					return strings.Fields(line)[1], nil
				}
			}
		}
	}
	return "", fmt.Errorf("no go files in %s", dir)
}

// ---- exploration ----

type Stats struct {
	Paths        int
	ByOutcome    map[string]int
	Steps        int64
	Queries      int
	SolverTime   time.Duration
	Asserts      int
	AssertsTrivial int
	Violations   []*Violation
	Inconclusive []string
	Warnings     map[string]bool
	Fns          map[string]bool
	Reached      map[string]bool
	Samples      []map[string]interface{}
	MaxDecisions int
	SolverErrors []string
	SampleVecs   [][]ReplayVal
	PrimaryUnknown int
	Fallback     map[string]int
	DecLabels    map[string]int
	Merges       int
}

type workQueue struct {
	mu     sync.Mutex
	cond   *sync.Cond
	items  [][]int
	active int
	closed bool
}

func (q *workQueue) push(items ...[]int) {
	q.mu.Lock()
	q.items = append(q.items, items...)
	q.mu.Unlock()
	q.cond.Broadcast()
}

func (q *workQueue) pop() ([]int, bool) {
	q.mu.Lock()
	defer q.mu.Unlock()
	for {
		if q.closed {
			return nil, false
		}
		if n := len(q.items); n > 0 {
			it := q.items[n-1]
			q.items = q.items[:n-1]
			q.active++
			return it, true
		}
		if q.active == 0 {
			q.closed = true
			q.cond.Broadcast()
			return nil, false
		}
		q.cond.Wait()
	}
}

func (q *workQueue) done() {
	q.mu.Lock()
	q.active--
	q.mu.Unlock()
	q.cond.Broadcast()
}

func (P *Prog) newPath(S *Solver, prefix []int) *Path {
	return &Path{
		P: P, S: S, prefix: append([]int{}, prefix...),
		globals: map[*ssa.Global]*Value{}, inited: map[*ssa.Package]bool{},
		finished: make(chan struct{}), reached: map[string]bool{}, fnsSeen: map[string]bool{},
		ufApps: map[string][]ufApp{}, envFires: map[*ChanV]int{}, store: map[string]interface{}{},
		noMerge: P.cfg.NoMerge || os.Getenv("VERIF_NOMERGE") != "",
		noDivAxiom: P.cfg.NoDivAxiom,
	}
}

func (P *Prog) runPath(p *Path, entry *ssa.Function) {
	p.S.Reset()
	th := &Thread{id: 0, p: p, wake: make(chan struct{}, 1)}
	p.threads = append(p.threads, th)
	p.cur = th
	p.wg.Add(1)
	go p.threadMain(th, entry, nil)
	th.wake <- struct{}{}
	<-p.finished
	for _, t := range p.threads {
		select {
		case t.wake <- struct{}{}:
		default:
		}
	}
	p.wg.Wait()
}

func (P *Prog) explore(entry *ssa.Function, workers int) *Stats {
	st := &Stats{ByOutcome: map[string]int{}, Warnings: map[string]bool{}, Fns: map[string]bool{}, Reached: map[string]bool{}}
	q := &workQueue{}
	q.cond = sync.NewCond(&q.mu)
	q.push([]int{})
	var mu sync.Mutex
	var wg sync.WaitGroup
	budgetHit := false
	if os.Getenv("VERIF_PROGRESS") != "" {
		stop := make(chan struct{})
		defer close(stop)
		go func() {
			t0 := time.Now()
			for {
				select {
				case <-stop:
					return
				case <-time.After(10 * time.Second):
					mu.Lock()
					q.mu.Lock()
					fmt.Fprintf(os.Stderr, "[progress %s %.0fs] paths=%d queued=%d active=%d outcomes=%v maxdec=%d\n", entry.Name(), time.Since(t0).Seconds(), st.Paths, len(q.items), q.active, st.ByOutcome, st.MaxDecisions)
					q.mu.Unlock()
					mu.Unlock()
				}
			}
		}()
	}
	for w := 0; w < workers; w++ {
		wg.Add(1)
		go func() {
			defer wg.Done()
			S, err := NewSolver(P.cfg.PrimaryTimeoutMs, false)
			if err == nil {
				S.FallbackMs = P.cfg.SolverTimeoutMs
			}
			if err != nil {
				mu.Lock()
				st.Inconclusive = append(st.Inconclusive, "cannot start solver: "+err.Error())
				mu.Unlock()
				return
			}
			defer S.Close()
			for {
				prefix, ok := q.pop()
				if !ok {
					break
				}
				mu.Lock()
				over := st.Paths >= P.cfg.MaxPaths
				if over {
					budgetHit = true
				}
				mu.Unlock()
				if over {
					q.done()
					continue
				}
				p := P.newPath(S, prefix)
				mu.Lock()
				p.wantSample = len(st.SampleVecs) < 24
				mu.Unlock()
				P.runPath(p, entry)
				q.push(p.newAlts...)
				mu.Lock()
				st.Paths++
				st.ByOutcome[p.outcome.Kind]++
				st.Steps += int64(p.steps)
				st.Asserts += p.asserts
				st.AssertsTrivial += p.assertsTrivial
				if len(p.prefix) > st.MaxDecisions {
					st.MaxDecisions = len(p.prefix)
				}
				for _, v := range p.violations {
					if len(st.Violations) < 50 {
						st.Violations = append(st.Violations, v)
					}
				}
				st.Inconclusive = append(st.Inconclusive, p.inconcl...)
				switch p.outcome.Kind {
				case "unsupported", "unwind", "budget", "unknown", "engine-error":
					if len(st.Inconclusive) < 50 {
						st.Inconclusive = append(st.Inconclusive, p.outcome.Kind+": "+p.outcome.Msg)
					}
				}
				for w := range p.warnings {
					st.Warnings[w] = true
				}
				st.Merges += p.merges
				for l, n := range p.decLabels {
					if st.DecLabels == nil {
						st.DecLabels = map[string]int{}
					}
					st.DecLabels[l] += n
				}
				for f := range p.fnsSeen {
					st.Fns[f] = true
				}
				for r := range p.reached {
					st.Reached[r] = true
				}
				if p.sampleVals != nil && len(st.SampleVecs) < 24 {
					st.SampleVecs = append(st.SampleVecs, p.sampleVals)
				}
				if len(st.Samples) < 4 && (p.outcome.Kind == "ok") {
					var tags []string
					for r := range p.reached {
						tags = append(tags, r)
					}
					sort.Strings(tags)
					st.Samples = append(st.Samples, map[string]interface{}{
						"entry": entry.Name(), "decisions": fmt.Sprint(p.prefix), "nondet_inputs": len(p.nondets),
						"path_constraints": len(p.pc), "assertions_discharged": p.asserts, "reached": tags, "instructions": p.steps,
					})
				}
				mu.Unlock()
				q.done()
			}
			mu.Lock()
			st.Queries += S.Queries
			st.SolverTime += S.Time
			st.PrimaryUnknown += S.PrimaryUnknown
			for k, v := range S.FallbackUsed {
				if st.Fallback == nil {
					st.Fallback = map[string]int{}
				}
				st.Fallback[k] += v
			}
			if len(S.Errors) > 0 && len(st.SolverErrors) < 10 {
				st.SolverErrors = append(st.SolverErrors, S.Errors[0])
			}
			mu.Unlock()
		}()
	}
	wg.Wait()
	if budgetHit {
		st.Inconclusive = append(st.Inconclusive, fmt.Sprintf("path budget %d exhausted", P.cfg.MaxPaths))
	}
	if len(st.SolverErrors) > 0 {
		st.Inconclusive = append(st.Inconclusive, "solver error output: "+st.SolverErrors[0])
	}
	return st
}

func lookupEntry(P *Prog, name string) (*ssa.Function, error) {
	f := P.harnessSSA.Func(name)
	if f == nil {
		return nil, fmt.Errorf("entry %s not found in %s", name, P.harnessPkg)
	}
	return f, nil
}

var _ = json.Marshal
var _ = types.Identical
