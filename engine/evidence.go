package main

import (
	"encoding/json"
	"fmt"
	"os"
	"sort"
	"time"
)

type Evidence struct {
	ID, Tier     string
	Seed         int64
	Paths        int
	Steps        int64
	Asserts      int
	Trivial      int
	Queries      int
	SolverS      float64
	LoadS        float64
	WallS        float64
	Validated    int
	Violations   int
	Known        int
	Fns          map[string]bool
	Samples      []interface{}
	Outcomes     map[string]int
	Entries      []map[string]interface{}
	Warnings     map[string]bool
	Inconclusive []string
	Bounds       []string
	Assumptions  []string
	Stubs        []string
	Reached      map[string]bool
	Limits       []string
}

func newEvidence(id, tier string, seed int64) *Evidence {
	return &Evidence{ID: id, Tier: tier, Seed: seed, Fns: map[string]bool{}, Outcomes: map[string]int{}, Warnings: map[string]bool{}, Reached: map[string]bool{}}
}

func (e *Evidence) add(u *Unit, entry string, st *Stats, dur time.Duration) {
	e.Paths += st.Paths
	e.Steps += st.Steps
	e.Asserts += st.Asserts
	e.Trivial += st.AssertsTrivial
	e.Queries += st.Queries
	e.SolverS += st.SolverTime.Seconds()
	for f := range st.Fns {
		e.Fns[f] = true
	}
	for k, v := range st.ByOutcome {
		e.Outcomes[k] += v
	}
	for w := range st.Warnings {
		e.Warnings[w] = true
	}
	for r := range st.Reached {
		e.Reached[entry+":"+r] = true
	}
	for _, s := range st.Samples {
		if len(e.Samples) < 12 {
			e.Samples = append(e.Samples, s)
		}
	}
	e.Entries = append(e.Entries, map[string]interface{}{
		"entry": entry, "pkg": u.Pkg, "paths": st.Paths, "outcomes": st.ByOutcome, "assertion_queries_unsat": st.Asserts,
		"assertions_constant_true": st.AssertsTrivial, "solver_queries": st.Queries, "solver_time_s": round2(st.SolverTime.Seconds()),
		"wall_s": round2(dur.Seconds()), "max_decisions_on_a_path": st.MaxDecisions, "violations": len(st.Violations),
		"z3_unknown_then_portfolio": st.PrimaryUnknown, "portfolio_decided_by": st.Fallback,
	})
	if b, ok := u.Bounds[e.Tier]; ok {
		e.Bounds = appendUniq(e.Bounds, u.Pkg+": "+b)
	} else if b, ok := u.Bounds["quick"]; ok {
		e.Bounds = appendUniq(e.Bounds, u.Pkg+": "+b)
	}
	for _, a := range u.Assumptions {
		e.Assumptions = appendUniq(e.Assumptions, a)
	}
	for _, a := range u.Stubs {
		e.Stubs = appendUniq(e.Stubs, a)
	}
	e.Limits = appendUniq(e.Limits, fmt.Sprintf("%s: max_paths=%d max_decisions/path=%d max_steps/path=%d block_visits=%d preempt=%d env_fires/channel=%d map_order=%s solver_timeout_ms=%d",
		u.Pkg, u.MaxPaths, u.MaxDecisions, u.MaxSteps, u.MaxBlockVisits, u.Preempt, u.MaxEnvFires, u.MapOrder, u.SolverTimeoutMs))
}

func appendUniq(l []string, s string) []string {
	for _, x := range l {
		if x == s {
			return l
		}
	}
	return append(l, s)
}

func round2(f float64) float64 { return float64(int(f*100)) / 100 }

func keys(m map[string]bool) []string {
	var r []string
	for k := range m {
		r = append(r, k)
	}
	sort.Strings(r)
	return r
}

func (e *Evidence) write(file string) {
	samples := e.Samples
	if len(samples) == 0 {
		samples = []interface{}{map[string]interface{}{"note": "no completed path recorded"}}
	}
	assumptions := append([]string{}, e.Assumptions...)
	assumptions = append(assumptions,
		"bounded check: the verdict covers all input values on the explored paths within the stated bounds, nothing outside them",
		"engine semantics of Go SSA (gosym) and the listed library models are trusted; cross-checked by translator validation against the native build",
		"z3 4.8.12 verdicts are trusted")
	for _, s := range e.Stubs {
		assumptions = append(assumptions, "stub/model: "+s)
	}
	states := e.Paths
	if states < 1 {
		states = 1
	}
	trans := e.Steps
	if trans < 1 {
		trans = 1
	}
	doc := map[string]interface{}{
		"property_id": e.ID,
		"tier":        e.Tier,
		"seed":        e.Seed,
		"level":       "model_checking",
		"coverage": map[string]interface{}{
			"states":                        states,
			"transitions":                   trans,
			"traces_validated_against_impl": e.Validated,
			"samples":                       samples,
			"explanation":                   "states = symbolic paths completed (each covers all input values satisfying its path condition); transitions = SSA instructions executed; every path's assertions were decided by z3 on path-condition ∧ ¬assertion",
			"functions_encoded":             keys(e.Fns),
			"bounds":                        e.Bounds,
			"engine_limits":                 e.Limits,
			"path_outcomes":                 e.Outcomes,
			"assertion_queries_unsat":       e.Asserts,
			"assertions_constant_true":      e.Trivial,
			"solver_queries":                e.Queries,
			"solver_time_s":                 round2(e.SolverS),
			"load_time_s":                   round2(e.LoadS),
			"solver":                        "z3 4.8.12 (z3 -in, incremental); on unknown: cvc5 1.0 --solve-bv-as-int=sum, z3 5.1.0 (z3-new), cvc5 (one-shot over the path's recorded script)",
			"per_entry":                     e.Entries,
			"vacuity_witnesses_reached":     keys(e.Reached),
			"warnings":                      keys(e.Warnings),
			"inconclusive":                  e.Inconclusive,
			"known_findings_matched":        e.Known,
			"exhaustive":                    false,
		},
		"assumptions": assumptions,
		"wall_s":      round2(e.WallS),
		"violations":  e.Violations,
	}
	b, _ := json.MarshalIndent(doc, "", " ")
	os.WriteFile(file, b, 0o644)
}
