package main

// Symbolic interpreter for go/ssa: frames, instructions, calls, defers, panics.

import (
	"fmt"
	"go/token"
	"go/types"
	"strings"
	"sync"

	"golang.org/x/tools/go/ssa"
)

// ---- engine-level control signals (Go panics of these types) ----

type unsupportedErr struct{ msg string }

func unsupported(msg string) unsupportedErr { return unsupportedErr{msg} }

type abortSig struct{} // path finished; unwind this thread

// goPanic is a panic of the interpreted program.
type goPanic struct {
	val  Value  // usually Iface
	kind string // "nil-deref","index","explicit","div0","typeassert","closed-chan",...
	msg  string
	stack string
}

func (g *goPanic) String() string {
	if g.msg != "" {
		return g.kind + ": " + g.msg
	}
	return g.kind + ": " + describe(g.val, 3)
}

type fnInfo struct {
	idx       map[ssa.Value]int
	n         int
	intrinsic intrinsicFn
	nop       bool
	name      string
	replaced  *ssa.Function
	inRepo    bool
	preemptMem bool
}

type deferred struct {
	fn   Value
	args []Value
	tail *deferred
}

type frame struct {
	p         *Path
	th        *Thread
	fn        *ssa.Function
	info      *fnInfo
	env       []Value
	block     *ssa.BasicBlock
	prev      *ssa.BasicBlock
	defers    *deferred
	result    Value
	panicking bool
	panicVal  interface{}
	caller    *frame
	visits    []int32
	tolerant  bool
	phisDone  bool
	status    int // 0 running, 1 panic, 2 complete
}

var fnInfoCache sync.Map

func (P *Prog) info(fn *ssa.Function) *fnInfo {
	if v, ok := fnInfoCache.Load(fn); ok {
		return v.(*fnInfo)
	}
	fi := &fnInfo{idx: map[ssa.Value]int{}}
	n := 0
	for _, p := range fn.Params {
		fi.idx[p] = n
		n++
	}
	for _, p := range fn.FreeVars {
		fi.idx[p] = n
		n++
	}
	for _, b := range fn.Blocks {
		for _, in := range b.Instrs {
			if v, ok := in.(ssa.Value); ok {
				fi.idx[v] = n
				n++
			}
		}
	}
	fi.n = n
	fi.name = fn.String()
	P.classify(fn, fi)
	v, _ := fnInfoCache.LoadOrStore(fn, fi)
	return v.(*fnInfo)
}

func (fr *frame) get(v ssa.Value) Value {
	switch x := v.(type) {
	case *ssa.Const:
		return constValue(x)
	case *ssa.Global:
		return fr.p.global(fr, x)
	case *ssa.Function:
		return x
	case *ssa.Builtin:
		return x
	case nil:
		return nil
	}
	i, ok := fr.info.idx[v]
	if !ok {
		panic(fmt.Sprintf("get: no slot for %T %s in %s", v, v.Name(), fr.fn))
	}
	return fr.env[i]
}

func (fr *frame) set(v ssa.Value, x Value) { fr.env[fr.info.idx[v]] = x }

func constValue(c *ssa.Const) Value {
	t := c.Type()
	if c.Value == nil {
		return zero(t)
	}
	if isBigInt(t) {
		panic(unsupported("const big"))
	}
	switch u := t.Underlying().(type) {
	case *types.Basic:
		if u.Info()&types.IsBoolean != 0 {
			return BoolC(constantBool(c))
		}
		if u.Info()&types.IsInteger != 0 {
			w, signed := basicWidth(u)
			if signed {
				return BVI(w, c.Int64())
			}
			return BVU(w, c.Uint64())
		}
		if u.Info()&types.IsString != 0 {
			return StrV{S: constantString(c)}
		}
		if u.Info()&types.IsFloat != 0 {
			return FloatV(c.Float64())
		}
		if u.Kind() == types.UnsafePointer {
			return UnsafePtr{}
		}
	case *types.TypeParam:
		panic(unsupported("const of type param"))
	}
	panic(unsupported("const of type " + t.String()))
}

// ---- running ----

// ensureBuilt waits until the SSA of fn's package is completely built
// (Package.Build is once-guarded and blocks concurrent callers), so that no
// worker observes a half-built function body.
func ensureBuilt(fn *ssa.Function) {
	f := fn
	for f.Parent() != nil {
		f = f.Parent()
	}
	if f.Pkg != nil {
		f.Pkg.Build()
	} else if o := f.Origin(); o != nil && o.Pkg != nil {
		o.Pkg.Build()
	}
}

func (p *Path) callFunction(th *Thread, caller *frame, fn *ssa.Function, args []Value, env []Value) Value {
	ensureBuilt(fn)
	info := p.P.info(fn)
	if info.replaced != nil {
		fn = info.replaced
		info = p.P.info(fn)
	}
	if info.intrinsic != nil {
		fr := caller
		if fr == nil {
			fr = &frame{p: p, th: th, fn: fn, info: info}
		}
		return info.intrinsic(fr, fn, args)
	}
	if info.nop {
		return nopResults(fn.Signature)
	}
	if fn.Blocks == nil {
		if fn.Pkg != nil {
			fn.Pkg.Build()
		}
		if fn.Blocks == nil {
			panic(unsupported("call to external function without body: " + info.name))
		}
		// numbering was computed before Build: recompute
		fnInfoCache.Delete(fn)
		info = p.P.info(fn)
	}
	if info.n == 0 && (len(fn.Params) > 0 || len(fn.Blocks) > 0) {
		fnInfoCache.Delete(fn)
		info = p.P.info(fn)
	}
	th.depth++
	if th.depth > p.P.cfg.MaxDepth {
		panic(unsupported("call depth exceeded in " + info.name))
	}
	defer func() { th.depth-- }()
	p.noteFn(info)
	fr := &frame{p: p, th: th, fn: fn, info: info, caller: caller}
	fr.env = make([]Value, info.n)
	fr.visits = make([]int32, len(fn.Blocks))
	for i, a := range args {
		if i < len(fn.Params) {
			fr.env[i] = a
		}
	}
	for i, b := range env {
		fr.env[len(fn.Params)+i] = b
	}
	// pre-allocate non-heap locals
	for _, l := range fn.Locals {
		fr.env[info.idx[l]] = new(Value)
	}
	fr.block = fn.Blocks[0]
	saved := th.top
	th.top = fr
	defer func() { th.top = saved }()
	for fr.block != nil {
		fr.runFrame()
	}
	return fr.result
}

// nopResults: results of a skipped function (logging packages). Pointers to
// structs are allocated (zero struct) rather than nil, so that promoted-field
// accesses on e.g. a logger obtained from a skipped constructor do not fault.
func nopResults(sig *types.Signature) Value {
	one := func(t types.Type) Value {
		if pt, ok := t.Underlying().(*types.Pointer); ok {
			if _, isStruct := pt.Elem().Underlying().(*types.Struct); isStruct {
				var cell Value = zero(pt.Elem())
				return &cell
			}
		}
		return zero(t)
	}
	switch sig.Results().Len() {
	case 0:
		return nil
	case 1:
		return one(sig.Results().At(0).Type())
	}
	tu := make(Tuple, sig.Results().Len())
	for i := range tu {
		tu[i] = one(sig.Results().At(i).Type())
	}
	return tu
}

func zeroResults(sig *types.Signature) Value {
	switch sig.Results().Len() {
	case 0:
		return nil
	case 1:
		return zero(sig.Results().At(0).Type())
	}
	return zero(sig.Results())
}

func (fr *frame) runFrame() {
	defer func() {
		if fr.block == nil {
			return // normal return
		}
		r := recover()
		switch gp := r.(type) {
		case *goPanic:
			if gp.stack == "" {
				gp.stack = fr.p.stack(fr)
			}
		case unsupportedErr:
			if !strings.Contains(gp.msg, " <- ") && fr.p.spec == 0 {
				gp.msg += " [" + fr.p.stack(fr) + "]"
			}
			panic(gp)
		default:
			panic(r) // engine-level signal or Go runtime bug: propagate, no defers
		}
		fr.panicking = true
		fr.status = 1
		fr.panicVal = r
		fr.runDefers()
		// recovered
		fr.block = fr.fn.Recover
		if fr.block == nil {
			fr.result = zeroResults(fr.fn.Signature)
		}
	}()
	for {
		b := fr.block
		fr.visits[b.Index]++
		if int(fr.visits[b.Index]) > fr.p.P.cfg.MaxBlockVisits {
			fr.p.finish(&Outcome{Kind: "unwind", Msg: fmt.Sprintf("block %d of %s visited more than %d times", b.Index, fr.info.name, fr.p.P.cfg.MaxBlockVisits)})
		}
		// phis
		if fr.phisDone {
			fr.phisDone = false
		} else if fr.prev != nil {
			var phis []Value
			var idx int
			for i, pr := range b.Preds {
				if pr == fr.prev {
					idx = i
					break
				}
			}
			np := 0
			for _, in := range b.Instrs {
				phi, ok := in.(*ssa.Phi)
				if !ok {
					break
				}
				phis = append(phis, fr.get(phi.Edges[idx]))
				np++
			}
			for i := 0; i < np; i++ {
				fr.set(b.Instrs[i].(*ssa.Phi), phis[i])
			}
		}
		jumped := false
		for _, in := range b.Instrs {
			if _, ok := in.(*ssa.Phi); ok {
				continue
			}
			fr.p.steps++
			if fr.p.steps > fr.p.P.cfg.MaxSteps {
				fr.p.finish(&Outcome{Kind: "budget", Msg: "instruction budget exceeded"})
			}
			var cont continuation
			if fr.tolerant {
				cont = fr.visitTolerant(in)
			} else {
				cont = fr.visit(in)
			}
			switch cont {
			case kReturn:
				return
			case kJump:
				jumped = true
			}
			if jumped {
				break
			}
		}
		if !jumped {
			panic("block fell through: " + fr.info.name)
		}
	}
}

func (fr *frame) runDefer(d *deferred) {
	ok := false
	defer func() {
		if !ok {
			r := recover()
			if _, isGo := r.(*goPanic); !isGo {
				panic(r)
			}
			fr.panicking = true
			fr.status = 1
			fr.panicVal = r
		}
	}()
	fr.p.call(fr, d.fn, d.args)
	ok = true
}

func (fr *frame) runDefers() {
	for d := fr.defers; d != nil; d = d.tail {
		fr.runDefer(d)
	}
	fr.defers = nil
	if fr.panicking {
		panic(fr.panicVal)
	}
}

func (p *Path) call(fr *frame, fn Value, args []Value) Value {
	switch f := fn.(type) {
	case *ssa.Function:
		if f == nil {
			panic(&goPanic{kind: "nil-deref", msg: "call of nil function"})
		}
		return p.callFunction(fr.th, fr, f, args, nil)
	case *Closure:
		return p.callFunction(fr.th, fr, f.Fn, args, f.Env)
	case *ssa.Builtin:
		return p.callBuiltin(fr, f, args)
	case NilFunc:
		panic(&goPanic{kind: "nil-deref", msg: "call of nil func value"})
	case *timerThunk:
		if st, ok := (*f.cell).(Struct); ok && len(st) > 1 {
			if t, ok := st[1].(*Term); ok && t.IsTrue() {
				return nil // stopped before it fired
			}
		}
		return p.call(fr, f.cb, nil)
	}
	panic(unsupported(fmt.Sprintf("call of %T", fn)))
}

func (fr *frame) prepareCall(c *ssa.CallCommon) (Value, []Value) {
	var args []Value
	var fn Value
	if c.IsInvoke() {
		recv, ok := fr.get(c.Value).(Iface)
		if !ok {
			panic(unsupported(fmt.Sprintf("invoke on %T", fr.get(c.Value))))
		}
		if recv.T == nil {
			panic(&goPanic{kind: "nil-deref", msg: "method call on nil interface: " + c.Method.Name()})
		}
		m := fr.p.P.lookupMethod(recv.T, c.Method)
		if m == nil {
			panic(unsupported("no method " + c.Method.Name() + " on " + recv.T.String()))
		}
		fn = m
		args = append(args, recv.V)
	} else {
		fn = fr.get(c.Value)
	}
	for _, a := range c.Args {
		args = append(args, fr.get(a))
	}
	return fn, args
}

var methodCache sync.Map

type methKey struct {
	t string
	m *types.Func
}

func (P *Prog) lookupMethod(t types.Type, m *types.Func) *ssa.Function {
	k := methKey{typeKey(t), m}
	if v, ok := methodCache.Load(k); ok {
		return v.(*ssa.Function)
	}
	P.mu.Lock()
	f := P.prog.LookupMethod(t, m.Pkg(), m.Name())
	P.mu.Unlock()
	if f != nil {
		methodCache.Store(k, f)
	}
	return f
}

func typeKey(t types.Type) string {
	return types.TypeString(t, func(p *types.Package) string { return p.Path() })
}

type continuation int

const (
	kNext continuation = iota
	kReturn
	kJump
)

func (fr *frame) deref(v Value, what string) *Value {
	switch x := v.(type) {
	case *Value:
		if x == nil {
			panic(&goPanic{kind: "nil-deref", msg: what})
		}
		return x
	}
	panic(unsupported(fmt.Sprintf("deref of %T (%s)", v, what)))
}

func (fr *frame) visit(instr ssa.Instruction) continuation {
	p := fr.p
	switch in := instr.(type) {
	case *ssa.DebugRef:
	case *ssa.UnOp:
		fr.set(in, fr.unop(in))
	case *ssa.BinOp:
		fr.set(in, fr.binop(in.Op, in.X.Type(), in.Y.Type(), fr.get(in.X), fr.get(in.Y)))
	case *ssa.Call:
		fn, args := fr.prepareCall(&in.Call)
		if fr.tolerant {
			fr.set(in, fr.tolerantCall(in, fn, args))
		} else {
			fr.set(in, p.call(fr, fn, args))
		}
	case *ssa.ChangeInterface:
		fr.set(in, fr.get(in.X))
	case *ssa.ChangeType:
		fr.set(in, fr.get(in.X))
	case *ssa.Convert:
		fr.set(in, fr.conv(in.Type(), in.X.Type(), fr.get(in.X)))
	case *ssa.MultiConvert:
		fr.set(in, fr.conv(in.Type(), in.X.Type(), fr.get(in.X)))
	case *ssa.SliceToArrayPointer:
		s := fr.get(in.X).(SliceV)
		n := int(in.Type().Underlying().(*types.Pointer).Elem().Underlying().(*types.Array).Len())
		if len(s) < n {
			panic(&goPanic{kind: "index", msg: "slice to array pointer: length too short"})
		}
		if s == nil {
			fr.set(in, (*Value)(nil))
		} else {
			// aliasing copy: share cells by building an Array over the same backing
			var cell Value = Array(s[:n:n])
			fr.set(in, &cell)
		}
	case *ssa.MakeInterface:
		fr.set(in, Iface{T: in.X.Type(), V: fr.get(in.X)})
	case *ssa.Extract:
		fr.set(in, fr.get(in.Tuple).(Tuple)[in.Index])
	case *ssa.Slice:
		fr.set(in, fr.slice(in))
	case *ssa.Return:
		switch len(in.Results) {
		case 0:
		case 1:
			fr.result = fr.get(in.Results[0])
		default:
			res := make(Tuple, len(in.Results))
			for i, r := range in.Results {
				res[i] = fr.get(r)
			}
			fr.result = res
		}
		fr.block = nil
		return kReturn
	case *ssa.RunDefers:
		fr.runDefers()
	case *ssa.Panic:
		panic(&goPanic{val: fr.get(in.X), kind: "explicit"})
	case *ssa.Send:
		p.chanSend(fr, fr.get(in.Chan), fr.get(in.X))
	case *ssa.Store:
		fr.store(fr.get(in.Addr), fr.get(in.Val))
	case *ssa.If:
		c := termOf(fr.get(in.Cond))
		if !c.IsConst() && p.spec == 0 && fr.tryMerge(in, c) {
			return kJump
		}
		succ := 1
		if p.branch(c) {
			succ = 0
		}
		fr.prev, fr.block = fr.block, fr.block.Succs[succ]
		return kJump
	case *ssa.Jump:
		fr.prev, fr.block = fr.block, fr.block.Succs[0]
		return kJump
	case *ssa.Defer:
		fn, args := fr.prepareCall(&in.Call)
		fr.defers = &deferred{fn: fn, args: args, tail: fr.defers}
	case *ssa.Go:
		fn, args := fr.prepareCall(&in.Call)
		p.spawn(fr, fn, args)
	case *ssa.MakeChan:
		n, ok := concInt(fr.get(in.Size))
		if !ok {
			panic(unsupported("symbolic channel size"))
		}
		fr.set(in, p.newChan(int(n), in.Type().Underlying().(*types.Chan).Elem()))
	case *ssa.Alloc:
		var addr *Value
		if in.Heap {
			addr = new(Value)
			fr.set(in, addr)
		} else {
			addr = fr.get(in).(*Value)
		}
		*addr = zero(in.Type().Underlying().(*types.Pointer).Elem())
	case *ssa.MakeSlice:
		ln := p.concretize(termOf(fr.get(in.Len)), "make len")
		cp := p.concretize(termOf(fr.get(in.Cap)), "make cap")
		if ln < 0 || cp < ln {
			panic(&goPanic{kind: "makeslice", msg: "len out of range"})
		}
		if cp > 1<<24 {
			panic(unsupported("huge make"))
		}
		s := make(SliceV, cp)
		et := in.Type().Underlying().(*types.Slice).Elem()
		for i := range s {
			s[i] = zero(et)
		}
		fr.set(in, s[:ln])
	case *ssa.MakeMap:
		mt := in.Type().Underlying().(*types.Map)
		fr.set(in, &MapV{KT: mt.Key(), VT: mt.Elem()})
	case *ssa.Range:
		if m, ok := fr.get(in.X).(*MapV); ok && m != nil {
			p.raceAccess(fr, m, false, "a map")
		}
		fr.set(in, p.rangeIter(fr.get(in.X), in.X.Type()))
	case *ssa.Next:
		fr.set(in, fr.get(in.Iter).(iterator).next(fr))
	case *ssa.FieldAddr:
		x := fr.get(in.X)
		cell := fr.deref(x, "field address of nil pointer ."+fieldName(in.X.Type(), in.Field))
		st, ok := (*cell).(Struct)
		if !ok {
			panic(unsupported(fmt.Sprintf("FieldAddr on %T in %s", *cell, fr.info.name)))
		}
		fr.set(in, &st[in.Field])
	case *ssa.Field:
		st, ok := fr.get(in.X).(Struct)
		if !ok {
			panic(unsupported(fmt.Sprintf("Field on %T in %s", fr.get(in.X), fr.info.name)))
		}
		fr.set(in, st[in.Field])
	case *ssa.IndexAddr:
		fr.set(in, fr.indexAddr(fr.get(in.X), fr.idxTerm(in.Index)))
	case *ssa.Index:
		fr.set(in, fr.index(fr.get(in.X), fr.idxTerm(in.Index)))
	case *ssa.Lookup:
		fr.set(in, fr.lookup(in))
	case *ssa.MapUpdate:
		m, _ := fr.get(in.Map).(*MapV)
		if m == nil {
			panic(&goPanic{kind: "nil-map", msg: "assignment to entry in nil map"})
		}
		p.raceAccess(fr, m, true, "a map")
		p.mapInsert(m, fr.get(in.Key), copyVal(fr.get(in.Value)))
	case *ssa.TypeAssert:
		fr.set(in, fr.typeAssert(in))
	case *ssa.MakeClosure:
		var b []Value
		for _, x := range in.Bindings {
			b = append(b, fr.get(x))
		}
		fr.set(in, &Closure{Fn: in.Fn.(*ssa.Function), Env: b})
	case *ssa.Select:
		fr.set(in, p.selectOp(fr, in))
	default:
		panic(unsupported(fmt.Sprintf("instruction %T", instr)))
	}
	return kNext
}

// visitTolerant executes one instruction of a package initialiser; a failing
// initialiser expression (e.g. one that needs a curve table the engine does not
// build) yields the zero value and initialisation continues with the next
// global instead of abandoning the whole package.
func (fr *frame) visitTolerant(in ssa.Instruction) (cont continuation) {
	defer func() {
		if r := recover(); r != nil {
			switch e := r.(type) {
			case *goPanic:
				fr.p.warn("init of " + fr.fn.Pkg.Pkg.Path() + ": initialiser panicked (" + e.String() + "), zero value used")
			case unsupportedErr:
				fr.p.warn("init of " + fr.fn.Pkg.Pkg.Path() + ": initialiser unsupported (" + e.msg + "), zero value used")
			default:
				panic(r)
			}
			if v, ok := in.(ssa.Value); ok {
				func() {
					defer func() { recover() }()
					fr.set(v, zero(v.Type()))
				}()
			}
			cont = kNext
			if _, isIf := in.(*ssa.If); isIf {
				fr.prev, fr.block = fr.block, fr.block.Succs[1]
				cont = kJump
			}
		}
	}()
	return fr.visit(in)
}

func fieldName(t types.Type, i int) string {
	if pt, ok := t.Underlying().(*types.Pointer); ok {
		if st, ok := pt.Elem().Underlying().(*types.Struct); ok && i < st.NumFields() {
			return st.Field(i).Name()
		}
	}
	return fmt.Sprint(i)
}

func (fr *frame) tolerantCall(in *ssa.Call, fn Value, args []Value) (res Value) {
	// Package initialisation is lazy: an init body does not run the inits of
	// the packages it imports; each runs when one of its globals is first
	// touched (Path.global).
	if f, ok := fn.(*ssa.Function); ok && f != nil && f.Name() == "init" && f.Pkg != nil && f.Signature.Recv() == nil && f.Pkg.Func("init") == f {
		return nil
	}
	defer func() {
		if r := recover(); r != nil {
			switch e := r.(type) {
			case unsupportedErr:
				fr.p.warn("init of " + fr.fn.Pkg.Pkg.Path() + ": skipped call (" + e.msg + ")")
			case *goPanic:
				fr.p.warn("init of " + fr.fn.Pkg.Pkg.Path() + ": skipped panicking call (" + e.String() + ")")
			default:
				panic(r)
			}
			res = zeroResults(in.Call.Signature())
		}
	}()
	return fr.p.call(fr, fn, args)
}

// ---- memory ----

func (fr *frame) load(addr Value) Value {
	switch a := addr.(type) {
	case *Value:
		if a == nil {
			panic(&goPanic{kind: "nil-deref", msg: "load through nil pointer"})
		}
		fr.p.memAccess(fr, a, false)
		return copyVal(*a)
	case *SymPtr:
		// ite chain over scalar cells
		var r *Term
		for i := len(a.Elems) - 1; i >= 0; i-- {
			e := termOf(a.Elems[i])
			if r == nil {
				r = e
			} else {
				r = Ite(Eq(a.Idx, BVU(64, uint64(i))), e, r)
			}
		}
		return r
	}
	panic(unsupported(fmt.Sprintf("load through %T", addr)))
}

func (fr *frame) store(addr Value, v Value) {
	switch a := addr.(type) {
	case *Value:
		if a == nil {
			panic(&goPanic{kind: "nil-deref", msg: "store through nil pointer"})
		}
		fr.p.memAccess(fr, a, true)
		*a = copyVal(v)
		return
	case *SymPtr:
		nv := termOf(v)
		for i := range a.Elems {
			a.Elems[i] = Ite(Eq(a.Idx, BVU(64, uint64(i))), nv, termOf(a.Elems[i]))
		}
		return
	}
	panic(unsupported(fmt.Sprintf("store through %T", addr)))
}

func allScalars(vs []Value) bool {
	for _, v := range vs {
		if _, ok := v.(*Term); !ok {
			return false
		}
	}
	return true
}

func (fr *frame) indexAddr(x Value, idx *Term) Value {
	var elems []Value
	switch c := x.(type) {
	case SliceV:
		elems = c
	case *Value:
		if c == nil {
			panic(&goPanic{kind: "nil-deref", msg: "index of nil array pointer"})
		}
		arr, ok := (*c).(Array)
		if !ok {
			panic(unsupported(fmt.Sprintf("IndexAddr on *%T", *c)))
		}
		elems = arr
	default:
		panic(unsupported(fmt.Sprintf("IndexAddr on %T", x)))
	}
	idx = toIdx64(idx)
	if idx.IsConst() {
		i := idx.Int64()
		if i < 0 || i >= int64(len(elems)) {
			panic(&goPanic{kind: "index", msg: fmt.Sprintf("index out of range [%d] with length %d", i, len(elems))})
		}
		return &elems[i]
	}
	// symbolic index: bounds check as a branch
	inRange := BVUlt(idx, BVU(64, uint64(len(elems))))
	if !fr.p.branch(inRange) {
		panic(&goPanic{kind: "index", msg: fmt.Sprintf("index out of range [symbolic] with length %d", len(elems))})
	}
	if len(elems) == 1 {
		return &elems[0]
	}
	if allScalars(elems) {
		return &SymPtr{Elems: elems, Idx: idx}
	}
	i := fr.p.concretizeRange(idx, 0, len(elems)-1)
	return &elems[i]
}

// idxTerm evaluates an index operand and widens it to 64 bits according to
// the signedness of its static type.
func (fr *frame) idxTerm(v ssa.Value) *Term {
	t := termOf(fr.get(v))
	if t.S.W < 64 {
		if b, ok := v.Type().Underlying().(*types.Basic); ok && b.Info()&types.IsUnsigned != 0 {
			return ZExt(t, 64)
		}
		return SExt(t, 64)
	}
	return t
}

func toIdx64(idx *Term) *Term {
	if idx.S.W < 64 {
		return SExt(idx, 64) // index operands of narrower signed types; unsigned narrower handled by caller types rarely
	}
	return idx
}

func (fr *frame) index(x Value, idx *Term) Value {
	idx = toIdx64(idx)
	switch c := x.(type) {
	case Array:
		if idx.IsConst() {
			i := idx.Int64()
			if i < 0 || i >= int64(len(c)) {
				panic(&goPanic{kind: "index", msg: "array index out of range"})
			}
			return copyVal(c[i])
		}
		inRange := BVUlt(idx, BVU(64, uint64(len(c))))
		if !fr.p.branch(inRange) {
			panic(&goPanic{kind: "index", msg: "array index out of range (symbolic)"})
		}
		if allScalars(c) {
			return fr.load(&SymPtr{Elems: c, Idx: idx})
		}
		return copyVal(c[fr.p.concretizeRange(idx, 0, len(c)-1)])
	case StrV:
		n := c.Len()
		if idx.IsConst() {
			i := idx.Int64()
			if i < 0 || i >= int64(n) {
				panic(&goPanic{kind: "index", msg: "string index out of range"})
			}
			return c.Byte(int(i))
		}
		inRange := BVUlt(idx, BVU(64, uint64(n)))
		if !fr.p.branch(inRange) {
			panic(&goPanic{kind: "index", msg: "string index out of range (symbolic)"})
		}
		var r *Term
		for i := n - 1; i >= 0; i-- {
			if r == nil {
				r = c.Byte(i)
			} else {
				r = Ite(Eq(idx, BVU(64, uint64(i))), c.Byte(i), r)
			}
		}
		return r
	}
	panic(unsupported(fmt.Sprintf("Index on %T", x)))
}

func (fr *frame) slice(in *ssa.Slice) Value {
	x := fr.get(in.X)
	var lo, hi, max = -1, -1, -1
	gi := func(v ssa.Value) int {
		if v == nil {
			return -1
		}
		return fr.p.concretize(termOf(fr.get(v)), "slice bound")
	}
	lo, hi, max = gi(in.Low), gi(in.High), gi(in.Max)
	if lo < 0 {
		lo = 0
	}
	switch c := x.(type) {
	case StrV:
		if hi < 0 {
			hi = c.Len()
		}
		if lo > hi || hi > c.Len() {
			panic(&goPanic{kind: "index", msg: fmt.Sprintf("string slice bounds out of range [%d:%d] with length %d", lo, hi, c.Len())})
		}
		return c.Slice(lo, hi)
	case SliceV:
		if hi < 0 {
			hi = len(c)
		}
		if max < 0 {
			max = cap(c)
		}
		if lo > hi || hi > max || max > cap(c) {
			panic(&goPanic{kind: "index", msg: fmt.Sprintf("slice bounds out of range [%d:%d:%d] with capacity %d", lo, hi, max, cap(c))})
		}
		if c == nil {
			return SliceV(nil)
		}
		return c[lo:hi:max]
	case *Value:
		if c == nil {
			panic(&goPanic{kind: "nil-deref", msg: "slice of nil array pointer"})
		}
		arr := (*c).(Array)
		if hi < 0 {
			hi = len(arr)
		}
		if max < 0 {
			max = len(arr)
		}
		if lo > hi || hi > max || max > len(arr) {
			panic(&goPanic{kind: "index", msg: "array slice bounds out of range"})
		}
		return SliceV(arr)[lo:hi:max]
	}
	panic(unsupported(fmt.Sprintf("Slice on %T", x)))
}

func (fr *frame) typeAssert(in *ssa.TypeAssert) Value {
	x, ok := fr.get(in.X).(Iface)
	if !ok {
		panic(unsupported(fmt.Sprintf("TypeAssert on %T", fr.get(in.X))))
	}
	var v Value
	okk := false
	if x.T != nil {
		if it, isI := in.AssertedType.Underlying().(*types.Interface); isI {
			if fr.p.P.implements(x.T, it) {
				v, okk = x, true
			}
		} else if types.Identical(x.T, in.AssertedType) {
			v, okk = x.V, true
		}
	}
	if in.CommaOk {
		if !okk {
			v = zero(in.AssertedType)
		}
		return Tuple{v, BoolC(okk)}
	}
	if !okk {
		dyn := "nil"
		if x.T != nil {
			dyn = x.T.String()
		}
		panic(&goPanic{kind: "typeassert", msg: "interface conversion: " + dyn + " is not " + in.AssertedType.String()})
	}
	return v
}

var implCache sync.Map

func (P *Prog) implements(t types.Type, it *types.Interface) bool {
	k := typeKey(t) + "|" + typeKey(it)
	if v, ok := implCache.Load(k); ok {
		return v.(bool)
	}
	P.mu.Lock()
	r := types.Implements(t, it)
	P.mu.Unlock()
	implCache.Store(k, r)
	return r
}

// ---- builtins ----

func (p *Path) callBuiltin(fr *frame, b *ssa.Builtin, args []Value) Value {
	switch b.Name() {
	case "append":
		if len(args) == 1 {
			return args[0]
		}
		s := args[0].(SliceV)
		switch t := args[1].(type) {
		case SliceV:
			if len(t) == 0 {
				return s
			}
			cp := make([]Value, len(t))
			for i, e := range t {
				cp[i] = copyVal(e)
			}
			return SliceV(append(s, cp...))
		case StrV:
			var bs []Value
			for _, x := range t.Bytes() {
				bs = append(bs, x)
			}
			if len(bs) == 0 {
				return s
			}
			return SliceV(append(s, bs...))
		}
		panic(unsupported("append arg"))
	case "copy":
		dst := args[0].(SliceV)
		n := 0
		switch src := args[1].(type) {
		case SliceV:
			tmp := make([]Value, len(src))
			for i, e := range src {
				tmp[i] = copyVal(e)
			}
			n = copy(dst, tmp)
		case StrV:
			bs := src.Bytes()
			for n < len(dst) && n < len(bs) {
				dst[n] = bs[n]
				n++
			}
		}
		return BVI(64, int64(n))
	case "len":
		switch x := args[0].(type) {
		case StrV:
			return BVI(64, int64(x.Len()))
		case SliceV:
			return BVI(64, int64(len(x)))
		case Array:
			return BVI(64, int64(len(x)))
		case *MapV:
			if x == nil {
				return BVI(64, 0)
			}
			p.raceAccess(fr, x, false, "a map")
			return BVI(64, int64(len(x.Entries)))
		case *ChanV:
			if x == nil {
				return BVI(64, 0)
			}
			return BVI(64, int64(len(x.buf)))
		case *Value:
			if x == nil {
				return BVI(64, 0)
			}
			return BVI(64, int64(len((*x).(Array))))
		}
	case "cap":
		switch x := args[0].(type) {
		case SliceV:
			return BVI(64, int64(cap(x)))
		case Array:
			return BVI(64, int64(len(x)))
		case *ChanV:
			if x == nil {
				return BVI(64, 0)
			}
			return BVI(64, int64(x.cap))
		case *Value:
			return BVI(64, int64(len((*x).(Array))))
		}
	case "delete":
		m, _ := args[0].(*MapV)
		if m != nil {
			p.raceAccess(fr, m, true, "a map")
			p.mapDelete(m, args[1])
		}
		return nil
	case "close":
		p.chanClose(fr, args[0])
		return nil
	case "panic":
		panic(&goPanic{val: args[0], kind: "explicit"})
	case "recover":
		return p.doRecover(fr)
	case "print", "println":
		return nil
	case "min", "max":
		r := termOf(args[0])
		_, signed := basicWidth(b.Type().(*types.Signature).Params().At(0).Type().Underlying().(*types.Basic))
		for _, a := range args[1:] {
			t := termOf(a)
			var lt *Term
			if signed {
				lt = BVSlt(t, r)
			} else {
				lt = BVUlt(t, r)
			}
			if b.Name() == "max" {
				lt = Not(Or(lt, Eq(t, r)))
			}
			r = Ite(lt, t, r)
		}
		return r
	case "clear":
		switch x := args[0].(type) {
		case *MapV:
			if x != nil {
				x.Entries = nil
			}
		case SliceV:
			et := b.Type().(*types.Signature).Params().At(0).Type().Underlying().(*types.Slice).Elem()
			for i := range x {
				x[i] = zero(et)
			}
		}
		return nil
	case "ssa:wrapnilchk":
		if isNilValue(args[0]) {
			panic(&goPanic{kind: "nil-deref", msg: "value method called using nil pointer"})
		}
		return args[0]
	}
	panic(unsupported("builtin " + b.Name()))
}

func (p *Path) doRecover(fr *frame) Value {
	// recover() is effective when called directly by a deferred function
	// while the frame that deferred it is panicking.
	if fr.caller != nil && fr.caller.status == 1 && fr.caller.panicking {
		c := fr.caller
		c.panicking = false
		c.status = 2
		gp := c.panicVal.(*goPanic)
		c.panicVal = nil
		if gp.val != nil {
			return gp.val
		}
		return p.runtimeErrorValue(gp)
	}
	return Iface{}
}

// ---- misc ----

func constantBool(c *ssa.Const) bool { return c.Value.String() == "true" }
func constantString(c *ssa.Const) string {
	s := c.Value.ExactString()
	_ = s
	return constStringVal(c)
}

func posStr(fset *token.FileSet, pos token.Pos) string {
	if !pos.IsValid() {
		return "?"
	}
	ps := fset.Position(pos)
	f := ps.Filename
	if i := strings.Index(f, "/repo/"); i >= 0 {
		f = f[i+6:]
	}
	return fmt.Sprintf("%s:%d", f, ps.Line)
}
