package main

// Intrinsics: harness API and models of library functions.

import (
	"go/types"
	"math/big"
	"runtime/debug"
	"strings"

	"golang.org/x/tools/go/ssa"
)

type intrinsicFn func(fr *frame, fn *ssa.Function, args []Value) Value

var intrinsics = map[string]intrinsicFn{}

// harness API: matched by bare function name inside the harness package
var harnessAPI = map[string]intrinsicFn{}

func stackTrace() []byte { return debug.Stack() }

func reg(name string, f intrinsicFn) { intrinsics[name] = f }

func opaqueZero(t types.Type) (Value, bool) {
	return nil, false
}

func (P *Prog) classify(fn *ssa.Function, fi *fnInfo) {
	name := fi.name
	pkgPath := ""
	if fn.Pkg != nil {
		pkgPath = fn.Pkg.Pkg.Path()
	} else if fn.Origin() != nil && fn.Origin().Pkg != nil {
		pkgPath = fn.Origin().Pkg.Pkg.Path()
	} else if o := fn.Object(); o != nil && o.Pkg() != nil {
		pkgPath = o.Pkg().Path()
	}
	if pkgPath == "" && fn.Parent() != nil {
		// anonymous function: inherit from enclosing
		par := fn.Parent()
		for par.Parent() != nil {
			par = par.Parent()
		}
		if par.Pkg != nil {
			pkgPath = par.Pkg.Pkg.Path()
		}
	}
	fi.inRepo = strings.HasPrefix(pkgPath, P.modPath)
	if fi.inRepo {
		f := fn
		for f.Parent() != nil {
			f = f.Parent()
		}
		if f.Pos().IsValid() && strings.Contains(P.prog.Fset.Position(f.Pos()).Filename, "zz_verif_") {
			fi.inRepo = false // harness code
		}
	}
	if pkgPath == P.harnessPkg && fn.Parent() == nil && fn.Signature.Recv() == nil {
		if f, ok := harnessAPI[fn.Name()]; ok {
			fi.intrinsic = f
			fi.inRepo = false
			return
		}
	}
	if strings.HasPrefix(fn.Name(), "Verif") || strings.HasPrefix(fn.Name(), "verif") || strings.HasPrefix(fn.Name(), "vstub") {
		if pkgPath == P.harnessPkg {
			fi.inRepo = false
		}
	}
	if r, ok := P.cfg.Replace[name]; ok {
		if f := P.harnessSSA.Func(r); f != nil {
			fi.replaced = f
			return
		}
		panic("replace target not found: " + r)
	}
	if f, ok := intrinsics[name]; ok {
		fi.intrinsic = f
		return
	}
	if o := fn.Origin(); o != nil && o != fn {
		if f, ok := intrinsics[o.String()]; ok {
			fi.intrinsic = f
			return
		}
	}
	for _, n := range P.cfg.Nop {
		// also promoted-method wrappers whose receiver type lives in a skipped package
		if strings.HasPrefix(pkgPath, n) || strings.HasPrefix(name, "("+n) || strings.HasPrefix(name, "(*"+n) {
			fi.nop = true
			return
		}
	}
	for _, n := range P.cfg.Havoc {
		if name == n {
			fi.intrinsic = havocCall
			return
		}
	}
	for _, n := range P.cfg.NopFuncs {
		if name == n {
			fi.nop = true
			return
		}
	}
	for _, n := range P.cfg.PreemptMem {
		if strings.HasPrefix(name, n) || strings.Contains(name, n) {
			fi.preemptMem = true
		}
	}
}

func (P *Prog) skipInit(pkgPath string) bool {
	for _, n := range P.cfg.Nop {
		if strings.HasPrefix(pkgPath, n) {
			return true
		}
	}
	for _, n := range P.cfg.SkipInit {
		if strings.HasPrefix(pkgPath, n) {
			return true
		}
	}
	return false
}

// ---------- harness API ----------

func init() {
	mk := func(kind string, w int) intrinsicFn {
		return func(fr *frame, fn *ssa.Function, args []Value) Value {
			return fr.p.newVar(kind, SBV(w), "")
		}
	}
	harnessAPI["vU8"] = mk("u8", 8)
	harnessAPI["vU16"] = mk("u16", 16)
	harnessAPI["vU32"] = mk("u32", 32)
	harnessAPI["vU64"] = mk("u64", 64)
	harnessAPI["vI64"] = mk("i64", 64)
	harnessAPI["vI32"] = mk("i32", 32)
	harnessAPI["vInt"] = mk("int", 64)
	harnessAPI["vBool"] = func(fr *frame, fn *ssa.Function, args []Value) Value {
		return fr.p.newVar("bool", SBool, "")
	}
	harnessAPI["vBig"] = func(fr *frame, fn *ssa.Function, args []Value) Value {
		// arbitrary non-negative integer below 2^bits
		bits, ok := concInt(args[0])
		if !ok {
			panic(unsupported("vBig bits must be concrete"))
		}
		v := fr.p.newVar("big", SInt, "")
		if !fr.p.concreteMode {
			fr.p.assume(ILe(IntI(0), v))
			fr.p.assume(ILt(v, IntC(new(big.Int).Lsh(one, uint(bits)))))
		}
		var cell Value = BigVal{v}
		return &cell
	}
	harnessAPI["vRange"] = func(fr *frame, fn *ssa.Function, args []Value) Value {
		lo, ok1 := concInt(args[0])
		hi, ok2 := concInt(args[1])
		if !ok1 || !ok2 || hi < lo {
			panic(unsupported("vRange bounds must be concrete with lo<=hi"))
		}
		p := fr.p
		var c int
		if p.concreteMode {
			v, fromList := p.concNext(62)
			if fromList {
				c = int(v.Int64() - lo)
			} else {
				c = int(v.Uint64() % uint64(hi-lo+1))
			}
		} else if hi > lo {
			c = p.choose(make([]*Term, hi-lo+1), "vRange")
		}
		p.nondets = append(p.nondets, NondetRec{Kind: "range", Conc: lo + int64(c)})
		return BVI(64, lo+int64(c))
	}
	harnessAPI["vAssume"] = func(fr *frame, fn *ssa.Function, args []Value) Value {
		c := termOf(args[0])
		p := fr.p
		if c.IsConst() {
			if c.IsFalse() {
				p.finish(&Outcome{Kind: "pruned", Msg: "assumption false"})
			}
			return nil
		}
		if !p.feasible(c) {
			p.finish(&Outcome{Kind: "pruned", Msg: "assumption infeasible"})
		}
		p.assume(c)
		return nil
	}
	harnessAPI["vAssert"] = func(fr *frame, fn *ssa.Function, args []Value) Value {
		msg := ""
		if len(args) > 1 {
			msg = args[1].(StrV).String()
		}
		fr.p.assertCond(fr, termOf(args[0]), msg)
		return nil
	}
	harnessAPI["vReach"] = func(fr *frame, fn *ssa.Function, args []Value) Value {
		fr.p.reached[args[0].(StrV).String()] = true
		return nil
	}
	harnessAPI["vYield"] = func(fr *frame, fn *ssa.Function, args []Value) Value {
		fr.p.preemptPoint(fr.th)
		return nil
	}
	// vQuiesce parks the caller until no other goroutine can run (all finished
	// or blocked): lets a harness inspect the final state of spawned work.
	harnessAPI["vQuiesce"] = func(fr *frame, fn *ssa.Function, args []Value) Value {
		p, self := fr.p, fr.th
		p.block(self, func() bool {
			for _, t := range p.threads {
				if t != self && p.runnable(t) {
					return false
				}
			}
			return true
		})
		return nil
	}
	// vClockMax bounds every reading of the modelled clock (nanoseconds).
	harnessAPI["vClockMax"] = func(fr *frame, fn *ssa.Function, args []Value) Value {
		fr.p.nowMax = termOf(args[0])
		return nil
	}
	// vSetClock: the harness owns the clock; every reading returns this value
	// (nanoseconds, monotonic) until it is set again.
	harnessAPI["vSetClock"] = func(fr *frame, fn *ssa.Function, args []Value) Value {
		fr.p.clockFixed = termOf(args[0])
		return nil
	}
	harnessAPI["vObserve"] = func(fr *frame, fn *ssa.Function, args []Value) Value {
		s := args[0].(StrV).String()
		if len(args) > 1 {
			s += "=" + fr.p.formatValue(fr, 'v', false, args[1], false).String()
		}
		fr.p.observations = append(fr.p.observations, s)
		return nil
	}
	// vConcrete: is the engine running? (natively false) — lets a harness skip
	// native-only set-up.
	harnessAPI["vMapOrder"] = func(fr *frame, fn *ssa.Function, args []Value) Value {
		fr.p.mapOrder = args[0].(StrV).String()
		return nil
	}
	harnessAPI["vThorough"] = func(fr *frame, fn *ssa.Function, args []Value) Value {
		return BoolC(fr.p.P.tier == "thorough")
	}
	harnessAPI["vSymbolic"] = func(fr *frame, fn *ssa.Function, args []Value) Value {
		return TTrue
	}
}

// havocCall models a dependency function by its signature only: if the last
// result is an error the call either fails (zero results + error) or succeeds;
// on success pointer-to-struct results are fresh zero structs, integers and
// booleans are fresh symbolic values, byte slices have 2 symbolic bytes.
func havocCall(fr *frame, fn *ssa.Function, args []Value) Value {
	p := fr.p
	res := fn.Signature.Results()
	n := res.Len()
	out := make(Tuple, n)
	hasErr := n > 0 && types.Identical(res.At(n-1).Type(), types.Universe.Lookup("error").Type())
	fail := false
	if hasErr && !p.concreteMode {
		fail = p.choose(make([]*Term, 2), "havoc outcome of "+fn.Name()) == 0
	}
	for i := 0; i < n; i++ {
		t := res.At(i).Type()
		if hasErr && i == n-1 {
			if fail {
				out[i] = p.makeError(fr, StrV{S: "verif: " + fn.Name() + " failed"}, nil)
			} else {
				out[i] = Iface{}
			}
			continue
		}
		if fail {
			out[i] = zero(t)
			continue
		}
		out[i] = p.havocValue(t)
	}
	switch n {
	case 0:
		return nil
	case 1:
		return out[0]
	}
	return out
}

func (p *Path) havocValue(t types.Type) Value {
	if isBigInt(t) {
		return BigVal{p.internalVar("hv", SInt)}
	}
	switch u := t.Underlying().(type) {
	case *types.Pointer:
		var cell Value
		if isBigInt(u.Elem()) {
			cell = BigVal{p.internalVar("hv", SInt)}
		} else if _, ok := u.Elem().Underlying().(*types.Struct); ok {
			cell = zero(u.Elem())
		} else {
			cell = p.havocValue(u.Elem())
		}
		return &cell
	case *types.Basic:
		if u.Info()&types.IsBoolean != 0 {
			return p.internalVar("hv", SBool)
		}
		if w, _ := basicWidth(u); w > 0 {
			return p.internalVar("hv", SBV(w))
		}
	case *types.Slice:
		if b, ok := u.Elem().Underlying().(*types.Basic); ok && b.Kind() == types.Uint8 {
			return SliceV{p.internalVar("hv", SBV(8)), p.internalVar("hv", SBV(8))}
		}
	}
	return zero(t)
}
