package main

// encoding/asn1.Marshal for the one shape Go code uses it for around ECDSA:
// a struct whose fields are all *big.Int, encoded as a DER SEQUENCE of
// INTEGERs. The real function is reflection-driven; the model produces the
// same bytes: each integer is its minimal big-endian two's-complement form
// (non-negative values get a 0x00 prefix when the top bit is set), lengths
// use the short form below 128 and the long form above.

import (
	"fmt"

	"golang.org/x/tools/go/ssa"
)

func derLen(n int) []Value {
	if n < 128 {
		return []Value{BVU(8, uint64(n))}
	}
	if n < 256 {
		return []Value{BVU(8, 0x81), BVU(8, uint64(n))}
	}
	return []Value{BVU(8, 0x82), BVU(8, uint64(n>>8)), BVU(8, uint64(n&0xff))}
}

func init() {
	reg("encoding/asn1.Marshal", func(fr *frame, fn *ssa.Function, a []Value) Value {
		val, _ := a[0].(Iface)
		st, ok := val.V.(Struct)
		if cell, isPtr := val.V.(*Value); isPtr && cell != nil {
			st, ok = (*cell).(Struct)
		}
		if !ok || len(st) == 0 {
			panic(unsupported(fmt.Sprintf("asn1.Marshal of %T (only structs of *big.Int are modelled)", val.V)))
		}
		var body []Value
		for _, f := range st {
			raw := bigRaw(f, "asn1.Marshal")
			if raw.S.K != KBV && fr.p.branch(ILt(raw, IntI(0))) {
				panic(unsupported("asn1.Marshal of a negative integer"))
			}
			mag := bigMagBytes(fr, f)
			var enc []Value
			if len(mag) == 0 {
				enc = []Value{BVU(8, 0)}
			} else {
				top := termOf(mag[0])
				if fr.p.branch(Eq(Extract(7, 7, top), BVU(1, 1))) {
					enc = append(enc, BVU(8, 0))
				}
				enc = append(enc, mag...)
			}
			body = append(body, BVU(8, 0x02))
			body = append(body, derLen(len(enc))...)
			body = append(body, enc...)
		}
		out := SliceV{BVU(8, 0x30)}
		out = append(out, derLen(len(body))...)
		out = append(out, body...)
		return Tuple{out, Iface{}}
	})
}
