package main

// math/big.Int modelled as an SMT Int (mathematical integer).

import (
	"fmt"
	"math/big"

	"golang.org/x/tools/go/ssa"
)

func bigCell(v Value, what string) *Value {
	p, ok := v.(*Value)
	if !ok || p == nil {
		panic(&goPanic{kind: "nil-deref", msg: "nil *big.Int in " + what})
	}
	return p
}

func bigOf(v Value, what string) *Term {
	c := bigCell(v, what)
	b, ok := (*c).(BigVal)
	if !ok {
		panic(unsupported(fmt.Sprintf("big.Int cell holds %T", *c)))
	}
	return toIntSort(b.T)
}

// bigRaw returns the stored term: sort Int, or a bit-vector holding a
// non-negative magnitude (used for values built from bytes / uint64, which
// keeps div/mod/compare inside the bit-vector theory).
func bigRaw(v Value, what string) *Term {
	c := bigCell(v, what)
	b, ok := (*c).(BigVal)
	if !ok {
		panic(unsupported(fmt.Sprintf("big.Int cell holds %T", *c)))
	}
	return b.T
}

func toIntSort(t *Term) *Term {
	if t.S.K == KBV {
		return BV2Nat(t)
	}
	return t
}

// asBV returns t as an unsigned bit-vector if it is BV-kind or a non-negative constant.
func asBV(t *Term) (*Term, bool) {
	if t.S.K == KBV {
		return t, true
	}
	if t.IsConst() && t.C.Sign() >= 0 {
		w := t.C.BitLen()
		if w == 0 {
			w = 1
		}
		return BVC(w, t.C), true
	}
	return nil, false
}

func bothBV(x, y *Term) (*Term, *Term, bool) {
	if x.S.K != KBV && y.S.K != KBV {
		return nil, nil, false
	}
	a, ok1 := asBV(x)
	b, ok2 := asBV(y)
	if !ok1 || !ok2 || a.S.W > 600 || b.S.W > 600 {
		return nil, nil, false
	}
	return a, b, true
}

func maxInt(a, b int) int {
	if a > b {
		return a
	}
	return b
}

func setBig(z Value, t *Term) Value {
	c := bigCell(z, "receiver")
	*c = BigVal{t}
	return z
}

func newBig(t *Term) Value {
	var cell Value = BigVal{t}
	return &cell
}

func iAbs(t *Term) *Term { return Ite(ILt(t, IntI(0)), INeg(t), t) }

// truncated quotient/remainder (Go Quo/Rem) from Euclidean div/mod
func tQuo(x, y *Term) *Term {
	return Ite(ILe(IntI(0), x), IDiv(x, y), INeg(IDiv(INeg(x), y)))
}

func pow256(n int) *big.Int { return new(big.Int).Lsh(one, uint(8*n)) }

func bigDivZeroCheck(fr *frame, y *Term) {
	if fr.p.branch(Eq(y, IntI(0))) {
		panic(&goPanic{kind: "div0", msg: "division by zero"})
	}
}

func init() {
	reg("math/big.NewInt", func(fr *frame, fn *ssa.Function, a []Value) Value {
		return newBig(BV2Int(termOf(a[0])))
	})
	bin := func(name string, f func(x, y *Term) *Term) {
		reg("(*math/big.Int)."+name, func(fr *frame, fn *ssa.Function, a []Value) Value {
			return setBig(a[0], f(bigOf(a[1], name), bigOf(a[2], name)))
		})
	}
	_ = bin
	reg("(*math/big.Int).Sub", func(fr *frame, fn *ssa.Function, a []Value) Value {
		x, y := bigRaw(a[1], "Sub"), bigRaw(a[2], "Sub")
		if x.S.K == KBV || y.S.K == KBV {
			// magnitudes held as bit-vectors: stay in that theory when the
			// difference is known not to be negative on this path
			if p, q, ok := bothBV(x, y); ok {
				w := maxInt(p.S.W, q.S.W)
				pe, qe := ZExt(p, w), ZExt(q, w)
				if fr.p.branch(BVUle(qe, pe)) {
					return setBig(a[0], BVSub(pe, qe))
				}
			}
		}
		return setBig(a[0], ISub(toIntSort(x), toIntSort(y)))
	})
	reg("(*math/big.Int).Add", func(fr *frame, fn *ssa.Function, a []Value) Value {
		x, y := bigRaw(a[1], "Add"), bigRaw(a[2], "Add")
		if p, q, ok := bothBV(x, y); ok {
			w := maxInt(p.S.W, q.S.W) + 1
			return setBig(a[0], BVAdd(ZExt(p, w), ZExt(q, w)))
		}
		return setBig(a[0], IAdd(toIntSort(x), toIntSort(y)))
	})
	reg("(*math/big.Int).Mul", func(fr *frame, fn *ssa.Function, a []Value) Value {
		x, y := bigRaw(a[1], "Mul"), bigRaw(a[2], "Mul")
		if p, q, ok := bothBV(x, y); ok && p.S.W+q.S.W <= 600 {
			w := p.S.W + q.S.W
			return setBig(a[0], BVMul(ZExt(p, w), ZExt(q, w)))
		}
		return setBig(a[0], IMul(toIntSort(x), toIntSort(y)))
	})
	divlike := func(name string, f func(x, y *Term) *Term) {
		reg("(*math/big.Int)."+name, func(fr *frame, fn *ssa.Function, a []Value) Value {
			x, y := bigOf(a[1], name), bigOf(a[2], name)
			bigDivZeroCheck(fr, y)
			return setBig(a[0], f(x, y))
		})
	}
	bvDivLike := func(name string, isMod bool, f func(x, y *Term) *Term) {
		reg("(*math/big.Int)."+name, func(fr *frame, fn *ssa.Function, a []Value) Value {
			x, y := bigRaw(a[1], name), bigRaw(a[2], name)
			if p, q, ok := bothBV(x, y); ok {
				w := maxInt(p.S.W, q.S.W)
				pe, qe := ZExt(p, w), ZExt(q, w)
				if fr.p.branch(Eq(qe, BVU(w, 0))) {
					panic(&goPanic{kind: "div0", msg: "division by zero"})
				}
				if isMod {
					return setBig(a[0], Extract(q.S.W-1, 0, BVURem(pe, qe)))
				}
				return setBig(a[0], Extract(p.S.W-1, 0, BVUDiv(pe, qe)))
			}
			xi, yi := toIntSort(x), toIntSort(y)
			bigDivZeroCheck(fr, yi)
			return setBig(a[0], f(xi, yi))
		})
	}
	bvDivLike("Div", false, IDiv)
	bvDivLike("Mod", true, IMod)
	divlike("Quo", tQuo)
	divlike("Rem", func(x, y *Term) *Term { return ISub(x, IMul(y, tQuo(x, y))) })
	reg("(*math/big.Int).DivMod", func(fr *frame, fn *ssa.Function, a []Value) Value {
		x, y := bigOf(a[1], "DivMod"), bigOf(a[2], "DivMod")
		bigDivZeroCheck(fr, y)
		setBig(a[3], IMod(x, y))
		setBig(a[0], IDiv(x, y))
		return Tuple{a[0], a[3]}
	})
	reg("(*math/big.Int).QuoRem", func(fr *frame, fn *ssa.Function, a []Value) Value {
		x, y := bigOf(a[1], "QuoRem"), bigOf(a[2], "QuoRem")
		bigDivZeroCheck(fr, y)
		q := tQuo(x, y)
		setBig(a[3], ISub(x, IMul(y, q)))
		setBig(a[0], q)
		return Tuple{a[0], a[3]}
	})
	un := func(name string, f func(x *Term) *Term) {
		reg("(*math/big.Int)."+name, func(fr *frame, fn *ssa.Function, a []Value) Value {
			return setBig(a[0], f(bigOf(a[1], name)))
		})
	}
	un("Set", func(x *Term) *Term { return x })
	un("Neg", INeg)
	un("Abs", iAbs)
	reg("(*math/big.Int).SetInt64", func(fr *frame, fn *ssa.Function, a []Value) Value {
		return setBig(a[0], BV2Int(termOf(a[1])))
	})
	reg("(*math/big.Int).SetUint64", func(fr *frame, fn *ssa.Function, a []Value) Value {
		return setBig(a[0], termOf(a[1]))
	})
	reg("(*math/big.Int).Cmp", func(fr *frame, fn *ssa.Function, a []Value) Value {
		if p, q, ok := bothBV(bigRaw(a[0], "Cmp"), bigRaw(a[1], "Cmp")); ok {
			w := maxInt(p.S.W, q.S.W)
			pe, qe := ZExt(p, w), ZExt(q, w)
			return Ite(BVUlt(pe, qe), BVI(64, -1), Ite(Eq(pe, qe), BVI(64, 0), BVI(64, 1)))
		}
		x, y := bigOf(a[0], "Cmp"), bigOf(a[1], "Cmp")
		return Ite(ILt(x, y), BVI(64, -1), Ite(Eq(x, y), BVI(64, 0), BVI(64, 1)))
	})
	reg("(*math/big.Int).CmpAbs", func(fr *frame, fn *ssa.Function, a []Value) Value {
		x, y := iAbs(bigOf(a[0], "Cmp")), iAbs(bigOf(a[1], "Cmp"))
		return Ite(ILt(x, y), BVI(64, -1), Ite(Eq(x, y), BVI(64, 0), BVI(64, 1)))
	})
	reg("(*math/big.Int).Sign", func(fr *frame, fn *ssa.Function, a []Value) Value {
		if r := bigRaw(a[0], "Sign"); r.S.K == KBV {
			return Ite(Eq(r, BVU(r.S.W, 0)), BVI(64, 0), BVI(64, 1))
		}
		x := bigOf(a[0], "Sign")
		return Ite(ILt(x, IntI(0)), BVI(64, -1), Ite(Eq(x, IntI(0)), BVI(64, 0), BVI(64, 1)))
	})
	reg("(*math/big.Int).Uint64", func(fr *frame, fn *ssa.Function, a []Value) Value {
		if r := bigRaw(a[0], "Uint64"); r.S.K == KBV {
			return ZExt(r, 64) // ZExt truncates when wider
		}
		return Int2BV(iAbs(bigOf(a[0], "Uint64")), 64)
	})
	reg("(*math/big.Int).Int64", func(fr *frame, fn *ssa.Function, a []Value) Value {
		x := bigOf(a[0], "Int64")
		lo := Int2BV(iAbs(x), 64)
		return Ite(ILt(x, IntI(0)), BVNeg(lo), lo)
	})
	reg("(*math/big.Int).IsUint64", func(fr *frame, fn *ssa.Function, a []Value) Value {
		if r := bigRaw(a[0], "IsUint64"); r.S.K == KBV {
			if r.S.W <= 64 {
				return TTrue
			}
			return Eq(Extract(r.S.W-1, 64, r), BVU(r.S.W-64, 0))
		}
		x := bigOf(a[0], "IsUint64")
		return And(ILe(IntI(0), x), ILt(x, IntC(new(big.Int).Lsh(one, 64))))
	})
	reg("(*math/big.Int).IsInt64", func(fr *frame, fn *ssa.Function, a []Value) Value {
		x := bigOf(a[0], "IsInt64")
		return And(ILe(IntC(new(big.Int).Neg(new(big.Int).Lsh(one, 63))), x), ILt(x, IntC(new(big.Int).Lsh(one, 63))))
	})
	reg("(*math/big.Int).SetBytes", func(fr *frame, fn *ssa.Function, a []Value) Value {
		buf := a[1].(SliceV)
		if len(buf) == 0 {
			return setBig(a[0], IntI(0))
		}
		if len(buf) > 128 {
			panic(unsupported("SetBytes on more than 128 bytes"))
		}
		var acc *Term
		for _, b := range buf {
			if acc == nil {
				acc = termOf(b)
			} else {
				acc = Concat(acc, termOf(b))
			}
		}
		return setBig(a[0], acc)
	})
	reg("(*math/big.Int).Bytes", func(fr *frame, fn *ssa.Function, a []Value) Value {
		return bigMagBytes(fr, a[0])
	})
	reg("(*math/big.Int).FillBytes", func(fr *frame, fn *ssa.Function, a []Value) Value {
		buf := a[1].(SliceV)
		if r := bigRaw(a[0], "FillBytes"); r.S.K == KBV {
			w := 8 * len(buf)
			if r.S.W > w {
				if !fr.p.branch(Eq(Extract(r.S.W-1, w, r), BVU(r.S.W-w, 0))) {
					panic(&goPanic{kind: "explicit", msg: "math/big: buffer too small to fit value"})
				}
			}
			re := ZExt(r, w)
			for i := range buf {
				k := len(buf) - 1 - i
				buf[i] = Extract(8*k+7, 8*k, re)
			}
			return buf
		}
		x := iAbs(bigOf(a[0], "FillBytes"))
		fits := ILt(x, IntC(pow256(len(buf))))
		if !fr.p.branch(fits) {
			panic(&goPanic{kind: "explicit", msg: "math/big: buffer too small to fit value"})
		}
		bs := bigBytes(x, len(buf))
		for i := range buf {
			buf[i] = bs[i]
		}
		return buf
	})
	reg("(*math/big.Int).BitLen", func(fr *frame, fn *ssa.Function, a []Value) Value {
		x := iAbs(bigOf(a[0], "BitLen"))
		if x.IsConst() {
			return BVI(64, int64(x.C.BitLen()))
		}
		// fork over byte length then refine inside the top byte
		n := bigByteLen(fr, x, 72)
		if n == 0 {
			return BVI(64, 0)
		}
		top := bigBytes(x, n)[0].(*Term)
		r := BVI(64, int64(8*(n-1)))
		var bl *Term = BVI(64, 0)
		for k := 1; k <= 8; k++ {
			bl = Ite(Not(BVUlt(top, BVU(8, uint64(1)<<(k-1)))), BVI(64, int64(k)), bl)
		}
		return BVAdd(r, bl)
	})
	reg("(*math/big.Int).Lsh", func(fr *frame, fn *ssa.Function, a []Value) Value {
		n, ok := concInt(a[2])
		if !ok {
			panic(unsupported("big.Lsh symbolic count"))
		}
		return setBig(a[0], IMul(bigOf(a[1], "Lsh"), IntC(new(big.Int).Lsh(one, uint(n)))))
	})
	reg("(*math/big.Int).Rsh", func(fr *frame, fn *ssa.Function, a []Value) Value {
		n, ok := concInt(a[2])
		if !ok {
			panic(unsupported("big.Rsh symbolic count"))
		}
		return setBig(a[0], IDiv(bigOf(a[1], "Rsh"), IntC(new(big.Int).Lsh(one, uint(n)))))
	})
	reg("(*math/big.Int).Exp", func(fr *frame, fn *ssa.Function, a []Value) Value {
		x := bigOf(a[1], "Exp")
		y := bigOf(a[2], "Exp")
		var m *Term
		if mp, ok := a[3].(*Value); ok && mp != nil {
			m = bigOf(a[3], "Exp")
			if m.IsConst() && m.C.Sign() == 0 {
				m = nil
			}
		}
		if !y.IsConst() {
			panic(unsupported("big.Exp with symbolic exponent"))
		}
		if m != nil && !m.IsConst() {
			if fr.p.branch(Eq(m, IntI(0))) {
				m = nil
			}
		}
		e := y.C
		if e.Sign() <= 0 {
			return setBig(a[0], IntI(1))
		}
		if x.IsConst() && (m == nil || m.IsConst()) {
			var mm *big.Int
			if m != nil {
				mm = m.C
			}
			return setBig(a[0], IntC(new(big.Int).Exp(x.C, e, mm)))
		}
		if e.BitLen() > 16 {
			panic(unsupported("big.Exp exponent too large for symbolic base"))
		}
		// square and multiply
		res := IntI(1)
		base := x
		if m != nil {
			base = IMod(base, iAbs(m))
		}
		for i := e.BitLen() - 1; i >= 0; i-- {
			res = IMul(res, res)
			if m != nil {
				res = IMod(res, iAbs(m))
			}
			if e.Bit(i) == 1 {
				res = IMul(res, base)
				if m != nil {
					res = IMod(res, iAbs(m))
				}
			}
		}
		return setBig(a[0], res)
	})
	reg("(*math/big.Int).ModInverse", func(fr *frame, fn *ssa.Function, a []Value) Value {
		g, n := bigOf(a[1], "ModInverse"), bigOf(a[2], "ModInverse")
		if g.IsConst() && n.IsConst() {
			r := new(big.Int).ModInverse(g.C, n.C)
			if r == nil {
				return (*Value)(nil)
			}
			return setBig(a[0], IntC(r))
		}
		// model: modulus is prime (stated assumption): invertible iff g mod n != 0
		if fr.p.branch(Eq(IMod(g, n), IntI(0))) {
			return (*Value)(nil)
		}
		r := fr.p.internalVar("modinv", SInt)
		fr.p.assume(ILe(IntI(1), r))
		fr.p.assume(ILt(r, iAbs(n)))
		fr.p.assume(Eq(IMod(IMul(g, r), n), IMod(IntI(1), n)))
		fr.p.warn("big.ModInverse modelled assuming a prime modulus")
		return setBig(a[0], r)
	})
	reg("(*math/big.Int).String", func(fr *frame, fn *ssa.Function, a []Value) Value {
		if p, ok := a[0].(*Value); ok && p == nil {
			return StrV{S: "<nil>"}
		}
		return bigText(fr, bigOf(a[0], "String"), 10)
	})
	reg("(*math/big.Int).Text", func(fr *frame, fn *ssa.Function, a []Value) Value {
		if p, ok := a[0].(*Value); ok && p == nil {
			return StrV{S: "<nil>"}
		}
		base, ok := concInt(a[1])
		if !ok {
			panic(unsupported("big.Text symbolic base"))
		}
		return bigText(fr, bigOf(a[0], "Text"), int(base))
	})
	reg("(*math/big.Int).SetString", func(fr *frame, fn *ssa.Function, a []Value) Value {
		s := a[1].(StrV)
		base, ok := concInt(a[2])
		if !s.IsConc() || !ok {
			panic(unsupported("big.SetString on symbolic string"))
		}
		v, good := new(big.Int).SetString(s.S, int(base))
		if !good {
			return Tuple{(*Value)(nil), TFalse}
		}
		setBig(a[0], IntC(v))
		return Tuple{a[0], TTrue}
	})
	reg("(*math/big.Int).Bit", func(fr *frame, fn *ssa.Function, a []Value) Value {
		x := bigOf(a[0], "Bit")
		i, ok := concInt(a[1])
		if !ok {
			panic(unsupported("big.Bit symbolic index"))
		}
		return ZExt(Extract(0, 0, Int2BV(IDiv(x, IntC(new(big.Int).Lsh(one, uint(i)))), 8)), 64)
	})
	reg("(*math/big.Int).ProbablyPrime", func(fr *frame, fn *ssa.Function, a []Value) Value {
		x := bigOf(a[0], "ProbablyPrime")
		if x.IsConst() {
			return BoolC(x.C.ProbablyPrime(20))
		}
		panic(unsupported("ProbablyPrime on symbolic value"))
	})
}

// bigByteLen forks over the minimal big-endian byte length of a non-negative x.
func bigByteLen(fr *frame, x *Term, max int) int {
	if x.IsConst() {
		return (x.C.BitLen() + 7) / 8
	}
	// narrow the range of feasible lengths with a binary search before the
	// case split (a value known to be small needs a handful of queries, not
	// one per possible length); replayed prefixes skip this
	lo, hi := 0, max
	if fr.p.pos >= len(fr.p.prefix) && fr.p.spec == 0 {
		// largest feasible length: smallest n with x < 256^n implied
		l, h := 0, max
		for l < h {
			mid := (l + h) / 2
			if fr.p.feasible(ILe(IntC(pow256(mid)), x)) {
				l = mid + 1
			} else {
				h = mid
			}
		}
		hi = l
		// smallest feasible length
		l, h = 0, hi
		for l < h {
			mid := (l + h) / 2
			var below *Term
			if mid == 0 {
				below = Eq(x, IntI(0))
			} else {
				below = ILt(x, IntC(pow256(mid)))
			}
			if fr.p.feasible(below) {
				h = mid
			} else {
				l = mid + 1
			}
		}
		lo = l
	}
	alts := make([]*Term, max+1)
	for n := 0; n <= max; n++ {
		if n < lo || n > hi {
			alts[n] = TFalse
			continue
		}
		hiT := ILt(x, IntC(pow256(n)))
		if n == 0 {
			alts[n] = Eq(x, IntI(0))
		} else {
			alts[n] = And(ILe(IntC(pow256(n-1)), x), hiT)
		}
	}
	return fr.p.choose(alts, "big.Bytes length")
}

func bigBytes(x *Term, n int) []Value {
	out := make([]Value, n)
	for i := 0; i < n; i++ {
		sh := n - 1 - i
		d := x
		if sh > 0 {
			d = IDiv(x, IntC(pow256(sh)))
		}
		out[i] = Int2BV(d, 8)
	}
	return out
}

// bvText renders an unsigned bit-vector value in the given base without
// leaving the bit-vector theory: the digit count is a case split on BV
// comparisons; digits are nibbles (base 16) or quotient/remainder pairs by
// constants (axiomatised by divByConst).
func bvText(fr *frame, bv *Term, base int) StrV {
	w := bv.S.W
	bb := big.NewInt(int64(base))
	limit := new(big.Int).Lsh(one, uint(w))
	var pows []*big.Int // pows[k] = base^k
	for pw := big.NewInt(1); pw.Cmp(limit) < 0; pw = new(big.Int).Mul(pw, bb) {
		pows = append(pows, pw)
	}
	max := len(pows)
	alts := make([]*Term, max)
	for n := 1; n <= max; n++ {
		c := TTrue
		if n > 1 {
			c = BVUle(BVC(w, pows[n-1]), bv)
		}
		if n < max {
			c = And(c, BVUlt(bv, BVC(w, pows[n])))
		}
		alts[n-1] = c
	}
	n := fr.p.choose(alts, "text digits") + 1
	bs := make([]*Term, n)
	for i := 0; i < n; i++ {
		k := n - 1 - i // digit weight base^k
		var d *Term
		if base == 16 {
			lo := 4 * k
			hi := lo + 3
			if hi >= w {
				d = ZExt(Extract(w-1, lo, bv), 8)
			} else {
				d = ZExt(Extract(hi, lo, bv), 8)
			}
			if d.S.W > 8 {
				d = Extract(7, 0, d)
			}
			bs[i] = hexDigit(d)
			continue
		}
		q := bv
		if k > 0 {
			q, _ = fr.p.divByConst(bv, BVC(w, pows[k]))
		}
		_, r := fr.p.divByConst(q, BVC(w, bb))
		d = Extract(7, 0, r)
		if base <= 10 {
			bs[i] = BVAdd(d, BVU(8, '0'))
		} else {
			bs[i] = Ite(BVUlt(d, BVU(8, 10)), BVAdd(d, BVU(8, '0')), BVAdd(d, BVU(8, 'a'-10)))
		}
	}
	return mkStr(bs)
}

func init() {
	// crypto/elliptic.Unmarshal: either not a point (nil, nil) or some coordinates
	reg("crypto/elliptic.Unmarshal", func(fr *frame, fn *ssa.Function, a []Value) Value {
		p := fr.p
		if p.concreteMode || p.choose(make([]*Term, 2), "elliptic.Unmarshal outcome") == 0 {
			return Tuple{(*Value)(nil), (*Value)(nil)}
		}
		var x, y Value = BigVal{p.internalVar("ecx", SInt)}, BigVal{p.internalVar("ecy", SInt)}
		return Tuple{&x, &y}
	})
}

func bigText(fr *frame, x *Term, base int) Value {
	if x.IsConst() {
		return StrV{S: x.C.Text(base)}
	}
	if x.Op == "bv2nat" && !fr.p.concreteMode {
		return bvText(fr, x.Args[0], base)
	}
	if fr.p.branch(ILt(x, IntI(0))) {
		return strConcat(StrV{S: "-"}, bigText(fr, INeg(x), base).(StrV))
	}
	// digit count case split
	bb := big.NewInt(int64(base))
	max := 80
	alts := make([]*Term, max)
	pw := big.NewInt(1)
	var pows []*big.Int
	for n := 1; n <= max; n++ {
		lo := new(big.Int).Set(pw)
		pw = new(big.Int).Mul(pw, bb)
		pows = append(pows, lo)
		if n == 1 {
			alts[n-1] = ILt(x, IntC(pw))
		} else {
			alts[n-1] = And(ILe(IntC(lo), x), ILt(x, IntC(pw)))
		}
	}
	n := fr.p.choose(alts, "big.Text digits") + 1
	bs := make([]*Term, n)
	for i := 0; i < n; i++ {
		d := IMod(IDiv(x, IntC(pows[n-1-i])), IntI(int64(base)))
		db := Int2BV(d, 8)
		if base <= 10 {
			bs[i] = BVAdd(db, BVU(8, '0'))
		} else {
			bs[i] = Ite(BVUlt(db, BVU(8, 10)), BVAdd(db, BVU(8, '0')), BVAdd(db, BVU(8, 'a'-10)))
		}
	}
	return mkStr(bs)
}

// bigMagBytes is (*big.Int).Bytes: the big-endian magnitude without leading
// zeros; the length is a case split.
func bigMagBytes(fr *frame, recv Value) SliceV {
	a := []Value{recv}
	if r := bigRaw(a[0], "Bytes"); r.S.K == KBV {
		w := (r.S.W + 7) / 8 * 8
		re := ZExt(r, w)
		nb := w / 8
		alts := make([]*Term, nb+1)
		for n := 0; n <= nb; n++ {
			// exactly n significant bytes
			var c *Term
			if n == nb {
				c = TTrue
			} else {
				c = Eq(Extract(w-1, 8*n, re), BVU(w-8*n, 0))
			}
			if n > 0 {
				c = And(c, Not(Eq(Extract(8*n-1, 8*(n-1), re), BVU(8, 0))))
			}
			alts[n] = c
		}
		n := fr.p.choose(alts, "big.Bytes length")
		out := make(SliceV, n)
		for i := 0; i < n; i++ {
			k := n - 1 - i
			out[i] = Extract(8*k+7, 8*k, re)
		}
		return out
	}
	x := iAbs(bigOf(a[0], "Bytes"))
	n := bigByteLen(fr, x, 72)
	return SliceV(bigBytes(x, n))
}
