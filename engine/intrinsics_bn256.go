package main

// bn256 (cloudflare) as a generic cyclic group of prime order q: a point is
// represented by its discrete logarithm (an Int term reduced mod q) with
// respect to the group's generator. PairingCheck is the bilinear equation on
// the scalars. The group order is the package's own Order unless the unit
// binds a smaller prime ("group_order" in cfg) — in which case the bn256.Order
// global read by the repository code is bound to the same value.

import (
	"math/big"

	"golang.org/x/tools/go/ssa"
)

const bn256Pkg = "github.com/ethereum/go-ethereum/crypto/bn256/cloudflare"

var bn254Order, _ = new(big.Int).SetString("21888242871839275222246405745257275088548364400416034343698204186575808495617", 10)

func (p *Path) groupOrder() *Term {
	if p.P.cfg.GroupOrder != "" {
		v, ok := new(big.Int).SetString(p.P.cfg.GroupOrder, 10)
		if ok {
			return IntC(v)
		}
	}
	return IntC(bn254Order)
}

func (p *Path) modQ(t *Term) *Term {
	q := p.groupOrder()
	if t.IsConst() {
		return IntC(new(big.Int).Mod(t.C, q.C))
	}
	return IMod(t, q)
}

// pointScalar reads the scalar of a *G1/*G2 cell; the zero value is the identity.
func pointScalar(v Value, what string) *Term {
	c, ok := v.(*Value)
	if !ok || c == nil {
		panic(&goPanic{kind: "nil-deref", msg: "nil curve point in " + what})
	}
	switch x := (*c).(type) {
	case Opaque:
		return x.T
	case Struct:
		return IntI(0)
	}
	panic(unsupported("curve point cell of unexpected kind in " + what))
}

func setPoint(v Value, kind string, s *Term) Value {
	c := v.(*Value)
	*c = Opaque{Kind: kind, T: s}
	return v
}

func init() {
	for _, g := range []string{"G1", "G2"} {
		g := g
		T := "(*" + bn256Pkg + "." + g + ")."
		reg(T+"ScalarBaseMult", func(fr *frame, fn *ssa.Function, a []Value) Value {
			return setPoint(a[0], g, fr.p.modQ(bigOf(a[1], g+".ScalarBaseMult")))
		})
		reg(T+"ScalarMult", func(fr *frame, fn *ssa.Function, a []Value) Value {
			return setPoint(a[0], g, fr.p.modQ(IMul(pointScalar(a[1], g+".ScalarMult"), bigOf(a[2], g+".ScalarMult"))))
		})
		reg(T+"Add", func(fr *frame, fn *ssa.Function, a []Value) Value {
			return setPoint(a[0], g, fr.p.modQ(IAdd(pointScalar(a[1], g+".Add"), pointScalar(a[2], g+".Add"))))
		})
		reg(T+"Neg", func(fr *frame, fn *ssa.Function, a []Value) Value {
			return setPoint(a[0], g, fr.p.modQ(INeg(pointScalar(a[1], g+".Neg"))))
		})
		reg(T+"Set", func(fr *frame, fn *ssa.Function, a []Value) Value {
			return setPoint(a[0], g, pointScalar(a[1], g+".Set"))
		})
		reg(T+"String", func(fr *frame, fn *ssa.Function, a []Value) Value {
			// not the library's text, but like it a function of the point and
			// nothing else: equal strings <=> equal points (repository code
			// compares points through String())
			sc := pointScalar(a[0], g+".String")
			bs := make([]*Term, 0, 40)
			for _, c := range []byte("bn256." + g + "(") {
				bs = append(bs, BVU(8, uint64(c)))
			}
			v := Int2BV(sc, 256)
			for k := 31; k >= 0; k-- {
				bs = append(bs, Extract(8*k+7, 8*k, v))
			}
			bs = append(bs, BVU(8, ')'))
			st := mkStr(bs)
			st.Tok = sc
			return st
		})
	}
	reg(bn256Pkg+".PairingCheck", func(fr *frame, fn *ssa.Function, a []Value) Value {
		as, bs := a[0].(SliceV), a[1].(SliceV)
		if len(as) != len(bs) {
			return TFalse
		}
		sum := IntI(0)
		for i := range as {
			sum = IAdd(sum, IMul(pointScalar(as[i], "PairingCheck"), pointScalar(bs[i], "PairingCheck")))
		}
		return Eq(fr.p.modQ(sum), IntI(0))
	})
	// vSamePoint(a, b): harness API, equality of two points of the same group
	harnessAPI["vSamePoint"] = func(fr *frame, fn *ssa.Function, a []Value) Value {
		get := func(v Value) *Term {
			it, ok := v.(Iface)
			if !ok || it.T == nil {
				panic(unsupported("vSamePoint on nil"))
			}
			return pointScalar(it.V, "vSamePoint")
		}
		return Eq(get(a[0]), get(a[1]))
	}
}
