package main

// fmt / errors / strconv models.

import (
	"fmt"
	"go/types"
	"strings"

	"golang.org/x/tools/go/ssa"
)

func (P *Prog) namedType(pkg, name string) types.Type {
	sp := P.prog.ImportedPackage(pkg)
	if sp == nil {
		return nil
	}
	t := sp.Type(name)
	if t == nil {
		return nil
	}
	return t.Type()
}

// callMethodByName invokes method name on a dynamic value (nil if absent).
func (p *Path) callMethodByName(fr *frame, recv Iface, name string, args ...Value) (Value, bool) {
	if recv.T == nil {
		return nil, false
	}
	p.P.mu.Lock()
	ms := p.P.prog.MethodSets.MethodSet(recv.T)
	var sel *types.Selection
	for i := 0; i < ms.Len(); i++ {
		if ms.At(i).Obj().Name() == name {
			sel = ms.At(i)
			break
		}
	}
	var fn *ssa.Function
	if sel != nil {
		fn = p.P.prog.MethodValue(sel)
	}
	p.P.mu.Unlock()
	if fn == nil {
		return nil, false
	}
	return p.callFunction(fr.th, fr, fn, append([]Value{recv.V}, args...), nil), true
}

func (p *Path) makeError(fr *frame, msg StrV, wrapped Value) Value {
	if w, ok := wrapped.(Iface); ok && w.T != nil {
		if t := p.P.namedType("fmt", "wrapError"); t != nil {
			var cell Value = Struct{msg, w}
			return Iface{T: types.NewPointer(t), V: &cell}
		}
	}
	t := p.P.namedType("errors", "errorString")
	if t == nil {
		panic(unsupported("errors.errorString type not loaded"))
	}
	var cell Value = Struct{msg}
	return Iface{T: types.NewPointer(t), V: &cell}
}

// formatValue renders v (dynamic type t) for verb.
func (p *Path) formatValue(fr *frame, verb byte, plus bool, arg Value, exact bool) StrV {
	it, ok := arg.(Iface)
	if !ok {
		return StrV{S: "<?>"}
	}
	if it.T == nil {
		return StrV{S: "<nil>"}
	}
	v := it.V
	// error / Stringer
	if verb == 'v' || verb == 's' || verb == 'w' || verb == 'q' {
		if bp, ok := v.(*Value); ok && bp != nil {
			if _, isBig := (*bp).(BigVal); isBig {
				if exact {
					return bigText(fr, bigOf(bp, "fmt"), 10).(StrV)
				}
				if t := bigOf(bp, "fmt"); t.IsConst() {
					return StrV{S: t.C.String()}
				}
				return StrV{S: "<big>"}
			}
		}
		if r, ok := p.callMethodByName(fr, it, "Error"); ok {
			if s, ok := r.(StrV); ok {
				return s
			}
		}
		if r, ok := p.callMethodByName(fr, it, "String"); ok {
			if s, ok := r.(StrV); ok {
				return s
			}
		}
	}
	switch x := v.(type) {
	case *Term:
		if x.S.K == KBool {
			if x.IsConst() {
				return StrV{S: fmt.Sprint(x.IsTrue())}
			}
			if exact {
				if p.branch(x) {
					return StrV{S: "true"}
				}
				return StrV{S: "false"}
			}
			return StrV{S: "<bool>"}
		}
		_, signed, _ := intInfo(it.T)
		base := 10
		switch verb {
		case 'x', 'X':
			base = 16
		case 'b':
			base = 2
		case 'o':
			base = 8
		case 'c':
			if x.IsConst() {
				return StrV{S: string(rune(x.Int64()))}
			}
		}
		if x.IsConst() {
			var s string
			if signed {
				s = x.Signed().Text(base)
			} else {
				s = x.C.Text(base)
			}
			if verb == 'X' {
				s = strings.ToUpper(s)
			}
			return StrV{S: s}
		}
		if !exact {
			return StrV{S: "<int>"}
		}
		var iv *Term
		if signed {
			iv = BV2Int(x)
		} else {
			iv = BV2Nat(x)
		}
		return bigText(fr, iv, base).(StrV)
	case StrV:
		if verb == 'x' {
			return hexOfBytes(x.Bytes())
		}
		if verb == 'q' {
			return strConcat(strConcat(StrV{S: "\""}, x), StrV{S: "\""})
		}
		return x
	case FloatV:
		return StrV{S: fmt.Sprint(float64(x))}
	case SliceV:
		if isByteSlice(it.T) {
			bs := make([]*Term, len(x))
			for i, e := range x {
				bs[i] = termOf(e)
			}
			if verb == 'x' || verb == 'X' {
				return hexOfBytes(bs)
			}
			if verb == 's' {
				return mkStr(bs)
			}
		}
		var parts []StrV
		et := it.T.Underlying().(*types.Slice).Elem()
		for _, e := range x {
			parts = append(parts, p.formatValue(fr, verb, plus, Iface{T: et, V: e}, exact))
		}
		r := StrV{S: "["}
		for i, s := range parts {
			if i > 0 {
				r = strConcat(r, StrV{S: " "})
			}
			r = strConcat(r, s)
		}
		return strConcat(r, StrV{S: "]"})
	case Array:
		et := it.T.Underlying().(*types.Array).Elem()
		if b, ok := et.Underlying().(*types.Basic); ok && b.Kind() == types.Uint8 && (verb == 'x' || verb == 'X') {
			bs := make([]*Term, len(x))
			for i, e := range x {
				bs[i] = termOf(e)
			}
			return hexOfBytes(bs)
		}
		r := StrV{S: "["}
		for i, e := range x {
			if i > 0 {
				r = strConcat(r, StrV{S: " "})
			}
			r = strConcat(r, p.formatValue(fr, verb, plus, Iface{T: et, V: e}, exact))
		}
		return strConcat(r, StrV{S: "]"})
	case *Value:
		if x == nil {
			return StrV{S: "<nil>"}
		}
		return StrV{S: "0xc000000000"}
	case Struct:
		st, ok := it.T.Underlying().(*types.Struct)
		if !ok {
			return StrV{S: "{?}"}
		}
		r := StrV{S: "{"}
		for i, e := range x {
			if i > 0 {
				r = strConcat(r, StrV{S: " "})
			}
			if plus {
				r = strConcat(r, StrV{S: st.Field(i).Name() + ":"})
			}
			r = strConcat(r, p.formatValue(fr, verb, plus, Iface{T: st.Field(i).Type(), V: e}, exact))
		}
		return strConcat(r, StrV{S: "}"})
	case Iface:
		return p.formatValue(fr, verb, plus, x, exact)
	}
	return StrV{S: "<" + it.T.String() + ">"}
}

func isByteSlice(t types.Type) bool {
	s, ok := t.Underlying().(*types.Slice)
	if !ok {
		return false
	}
	b, ok := s.Elem().Underlying().(*types.Basic)
	return ok && b.Kind() == types.Uint8
}

func hexDigit(n *Term) *Term { // n: BV8 in 0..15
	if n.IsConst() {
		return BVU(8, uint64("0123456789abcdef"[n.Uint64()]))
	}
	t := newTerm("hexdigit", SBV(8), n)
	return t
}

func hexOfBytes(bs []*Term) StrV {
	out := make([]*Term, 0, 2*len(bs))
	for _, b := range bs {
		out = append(out, hexDigit(BVLshr(b, BVU(8, 4))), hexDigit(BVAnd(b, BVU(8, 15))))
	}
	return mkStr(out)
}

func (p *Path) sprintf(fr *frame, format StrV, args []Value, exact bool) (StrV, Value) {
	if !format.IsConc() {
		panic(unsupported("symbolic format string"))
	}
	f := format.S
	out := StrV{}
	ai := 0
	var wrapped Value
	for i := 0; i < len(f); i++ {
		c := f[i]
		if c != '%' {
			j := i
			for j < len(f) && f[j] != '%' {
				j++
			}
			out = strConcat(out, StrV{S: f[i:j]})
			i = j - 1
			continue
		}
		i++
		if i >= len(f) {
			break
		}
		plus := false
		zero := false
		width := 0
		for i < len(f) && (f[i] == '+' || f[i] == '#' || f[i] == '-' || f[i] == ' ' || f[i] == '0') {
			if f[i] == '+' {
				plus = true
			}
			if f[i] == '0' {
				zero = true
			}
			i++
		}
		for i < len(f) && f[i] >= '0' && f[i] <= '9' {
			width = width*10 + int(f[i]-'0')
			i++
		}
		if i < len(f) && f[i] == '.' {
			i++
			for i < len(f) && f[i] >= '0' && f[i] <= '9' {
				i++
			}
		}
		if i >= len(f) {
			break
		}
		verb := f[i]
		if verb == '%' {
			out = strConcat(out, StrV{S: "%"})
			continue
		}
		if ai >= len(args) {
			out = strConcat(out, StrV{S: "%!" + string(verb) + "(MISSING)"})
			continue
		}
		a := args[ai]
		ai++
		if verb == 'w' {
			wrapped = a
		}
		var s StrV
		if verb == 'T' {
			if it, ok := a.(Iface); ok && it.T != nil {
				s = StrV{S: it.T.String()}
			} else {
				s = StrV{S: "<nil>"}
			}
		} else {
			s = p.formatValue(fr, verb, plus, a, exact)
		}
		if width > s.Len() {
			pad := " "
			if zero {
				pad = "0"
			}
			s = strConcat(StrV{S: strings.Repeat(pad, width-s.Len())}, s)
		}
		out = strConcat(out, s)
	}
	return out, wrapped
}

func variadic(v Value) []Value {
	if s, ok := v.(SliceV); ok {
		return s
	}
	return nil
}

func init() {
	reg("fmt.Sprintf", func(fr *frame, fn *ssa.Function, a []Value) Value {
		s, _ := fr.p.sprintf(fr, a[0].(StrV), variadic(a[1]), true)
		return s
	})
	reg("fmt.Errorf", func(fr *frame, fn *ssa.Function, a []Value) Value {
		s, w := fr.p.sprintf(fr, a[0].(StrV), variadic(a[1]), false)
		return fr.p.makeError(fr, s, w)
	})
	reg("fmt.Sprint", func(fr *frame, fn *ssa.Function, a []Value) Value {
		out := StrV{}
		for i, x := range variadic(a[0]) {
			s := fr.p.formatValue(fr, 'v', false, x, true)
			if i > 0 {
				// Sprint adds spaces between operands when neither is a string
				_, s1 := variadic(a[0])[i-1].(Iface).V.(StrV)
				_, s2 := x.(Iface).V.(StrV)
				if !s1 && !s2 {
					out = strConcat(out, StrV{S: " "})
				}
			}
			out = strConcat(out, s)
		}
		return out
	})
	reg("fmt.Sprintln", func(fr *frame, fn *ssa.Function, a []Value) Value {
		out := StrV{}
		for i, x := range variadic(a[0]) {
			if i > 0 {
				out = strConcat(out, StrV{S: " "})
			}
			out = strConcat(out, fr.p.formatValue(fr, 'v', false, x, true))
		}
		return strConcat(out, StrV{S: "\n"})
	})
	for _, n := range []string{"fmt.Println", "fmt.Printf", "fmt.Print", "fmt.Fprintf", "fmt.Fprintln", "fmt.Fprint"} {
		reg(n, func(fr *frame, fn *ssa.Function, a []Value) Value {
			return Tuple{BVI(64, 0), Iface{}}
		})
	}
	reg("errors.Is", func(fr *frame, fn *ssa.Function, a []Value) Value {
		err, _ := a[0].(Iface)
		target, _ := a[1].(Iface)
		for depth := 0; depth < 20; depth++ {
			if err.T == nil {
				return BoolC(target.T == nil)
			}
			if target.T != nil && types.Identical(err.T, target.T) && types.Comparable(err.T) {
				c := equals(err.V, target.V)
				if fr.p.branch(c) {
					return TTrue
				}
			}
			if r, ok := fr.p.callMethodByName(fr, err, "Is", target); ok {
				if fr.p.branch(termOf(r)) {
					return TTrue
				}
			}
			r, ok := fr.p.callMethodByName(fr, err, "Unwrap")
			if !ok {
				return TFalse
			}
			next, isI := r.(Iface)
			if !isI {
				return TFalse
			}
			err = next
		}
		return TFalse
	})
	reg("errors.Unwrap", func(fr *frame, fn *ssa.Function, a []Value) Value {
		err, _ := a[0].(Iface)
		r, ok := fr.p.callMethodByName(fr, err, "Unwrap")
		if !ok {
			return Iface{}
		}
		if next, isI := r.(Iface); isI {
			return next
		}
		return Iface{}
	})
	reg("strconv.Itoa", func(fr *frame, fn *ssa.Function, a []Value) Value {
		x := termOf(a[0])
		if x.IsConst() {
			return StrV{S: fmt.Sprint(x.Int64())}
		}
		if fr.p.branch(BVSlt(x, BVU(x.S.W, 0))) {
			return strConcat(StrV{S: "-"}, bvText(fr, BVNeg(x), 10))
		}
		return bvText(fr, x, 10)
	})
	reg("strconv.FormatUint", func(fr *frame, fn *ssa.Function, a []Value) Value {
		base, ok := concInt(a[1])
		if !ok {
			panic(unsupported("FormatUint symbolic base"))
		}
		return bigText(fr, BV2Nat(termOf(a[0])), int(base))
	})
	reg("strconv.FormatInt", func(fr *frame, fn *ssa.Function, a []Value) Value {
		base, ok := concInt(a[1])
		if !ok {
			panic(unsupported("FormatInt symbolic base"))
		}
		return bigText(fr, BV2Int(termOf(a[0])), int(base))
	})
	reg("encoding/hex.EncodeToString", func(fr *frame, fn *ssa.Function, a []Value) Value {
		src := a[0].(SliceV)
		bs := make([]*Term, len(src))
		for i, e := range src {
			bs[i] = termOf(e)
		}
		return hexOfBytes(bs)
	})
	reg("encoding/hex.DecodeString", func(fr *frame, fn *ssa.Function, a []Value) Value {
		s := a[0].(StrV)
		mkErr := func(msg string) Value { return fr.p.makeError(fr, StrV{S: msg}, nil) }
		if s.Len()%2 != 0 {
			// real function decodes the even prefix then reports ErrLength
			return Tuple{SliceV{}, mkErr("encoding/hex: odd length hex string")}
		}
		bs := s.Bytes()
		out := make(SliceV, 0, len(bs)/2)
		for i := 0; i+1 < len(bs); i += 2 {
			hi, ok1 := fromHex(fr, bs[i])
			lo, ok2 := fromHex(fr, bs[i+1])
			if !ok1 || !ok2 {
				return Tuple{SliceV(out), mkErr("encoding/hex: invalid byte")}
			}
			out = append(out, BVOr(BVShl(hi, BVU(8, 4)), lo))
		}
		return Tuple{SliceV(out), Iface{}}
	})
}

// fromHex decodes one hex character; forks on validity when symbolic.
func fromHex(fr *frame, c *Term) (*Term, bool) {
	if c.Op == "hexdigit" {
		return c.Args[0], true
	}
	if c.IsConst() {
		ch := byte(c.Uint64())
		switch {
		case ch >= '0' && ch <= '9':
			return BVU(8, uint64(ch-'0')), true
		case ch >= 'a' && ch <= 'f':
			return BVU(8, uint64(ch-'a'+10)), true
		case ch >= 'A' && ch <= 'F':
			return BVU(8, uint64(ch-'A'+10)), true
		}
		return nil, false
	}
	in := func(lo, hi byte) *Term { return And(BVUle(BVU(8, uint64(lo)), c), BVUle(c, BVU(8, uint64(hi)))) }
	valid := Or(in('0', '9'), Or(in('a', 'f'), in('A', 'F')))
	if !fr.p.branch(valid) {
		return nil, false
	}
	v := Ite(in('0', '9'), BVSub(c, BVU(8, '0')), Ite(in('a', 'f'), BVSub(c, BVU(8, 'a'-10)), BVSub(c, BVU(8, 'A'-10))))
	return v, true
}

// encoding/binary.Write of a fixed-size integer (or a pointer to one, or a
// byte slice): the reflective slow path of the real function is replaced by
// the encoding it computes.
func init() {
	reg("encoding/binary.Write", func(fr *frame, fn *ssa.Function, a []Value) Value {
		w, _ := a[0].(Iface)
		ord, _ := a[1].(Iface)
		data, _ := a[2].(Iface)
		if data.T == nil || ord.T == nil {
			panic(unsupported("binary.Write of nil data/order"))
		}
		little := strings.Contains(ord.T.String(), "littleEndian")
		v := data.V
		if cell, ok := v.(*Value); ok && cell != nil {
			v = *cell
		}
		var bs SliceV
		switch x := v.(type) {
		case *Term:
			if x.S.K != KBV || x.S.W%8 != 0 {
				panic(unsupported("binary.Write of non-integer scalar"))
			}
			n := x.S.W / 8
			for i := 0; i < n; i++ {
				k := i
				if !little {
					k = n - 1 - i
				}
				bs = append(bs, Extract(8*k+7, 8*k, x))
			}
		case SliceV:
			for _, e := range x {
				t, ok := e.(*Term)
				if !ok || t.S.K != KBV || t.S.W != 8 {
					panic(unsupported("binary.Write of a non-byte slice"))
				}
				bs = append(bs, t)
			}
		default:
			panic(unsupported(fmt.Sprintf("binary.Write of %T", v)))
		}
		res, ok := fr.p.callMethodByName(fr, w, "Write", bs)
		if !ok {
			panic(unsupported("binary.Write: writer without Write"))
		}
		return res.(Tuple)[1]
	})
}
