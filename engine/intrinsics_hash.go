package main

// Cryptographic hashes as collision-free uninterpreted functions.
//
// A hash of concrete bytes is computed natively (so concrete runs agree with
// the real library). A hash of symbolic bytes is a vector of fresh bytes,
// constrained against every earlier application of the same function on an
// input of the same length by  (inputs equal) <=> (digests equal)  — i.e.
// functional consistency plus the collision-freeness assumption. Inputs of
// different lengths are assumed to hash differently.

import (
	"go/types"
	"crypto/sha256"
	"crypto/sha512"
	"fmt"
	"hash"

	"golang.org/x/crypto/ripemd160"
	"golang.org/x/crypto/sha3"
	"golang.org/x/tools/go/ssa"
)

func allConcrete(bs []*Term) ([]byte, bool) {
	raw := make([]byte, len(bs))
	for i, b := range bs {
		if !b.IsConst() {
			return nil, false
		}
		raw[i] = byte(b.Uint64())
	}
	return raw, true
}

func constBytes(raw []byte) []*Term {
	out := make([]*Term, len(raw))
	for i, b := range raw {
		out[i] = BVU(8, uint64(b))
	}
	return out
}

func (p *Path) hashModel(name string, in []*Term, outLen int, native func([]byte) []byte) []*Term {
	if raw, ok := allConcrete(in); ok && native != nil {
		out := constBytes(native(raw))
		p.ufApps[name] = append(p.ufApps[name], ufApp{args: in, resv: out})
		return out
	}
	if p.concreteMode {
		panic(unsupported("hash of non-concrete bytes in concrete mode"))
	}
	out := make([]*Term, outLen)
	for i := range out {
		out[i] = p.internalVar("h", SBV(8))
	}
	for _, prev := range p.ufApps[name] {
		outEq := TTrue
		for i := range out {
			outEq = And(outEq, Eq(out[i], prev.resv[i]))
		}
		if len(prev.args) != len(in) {
			p.assume(Not(outEq))
			continue
		}
		inEq := TTrue
		for i := range in {
			inEq = And(inEq, Eq(in[i], prev.args[i]))
		}
		p.assume(Eq(inEq, outEq))
	}
	p.ufApps[name] = append(p.ufApps[name], ufApp{args: in, resv: out})
	return out
}

func sliceTerms(v Value) []*Term {
	s := v.(SliceV)
	out := make([]*Term, len(s))
	for i, e := range s {
		out[i] = termOf(e)
	}
	return out
}

func termsArray(ts []*Term) Array {
	a := make(Array, len(ts))
	for i, t := range ts {
		a[i] = t
	}
	return a
}

func termsSlice(ts []*Term) SliceV {
	a := make(SliceV, len(ts))
	for i, t := range ts {
		a[i] = t
	}
	return a
}

func nativeOf(h func() hash.Hash) func([]byte) []byte {
	return func(b []byte) []byte {
		x := h()
		x.Write(b)
		return x.Sum(nil)
	}
}

func init() {
	sum := func(name string, n int, nat func([]byte) []byte) intrinsicFn {
		return func(fr *frame, fn *ssa.Function, a []Value) Value {
			return termsArray(fr.p.hashModel(name, sliceTerms(a[0]), n, nat))
		}
	}
	reg("crypto/sha256.Sum256", sum("sha256", 32, nativeOf(sha256.New)))
	reg("crypto/sha512.Sum512", sum("sha512", 64, nativeOf(sha512.New)))
	reg("golang.org/x/crypto/sha3.Sum256", sum("sha3-256", 32, nativeOf(sha3.New256)))
	// streaming hashers: the state is the list of bytes written so far
	mkHasher := func(kind string) intrinsicFn {
		return func(fr *frame, fn *ssa.Function, a []Value) Value {
			t := fr.p.P.namedType("crypto/sha256", "digest")
			if t == nil {
				panic(unsupported("crypto/sha256.digest type not loaded (needed as carrier for modelled hashers)"))
			}
			var cell Value = Opaque{Kind: "hasher", X: &hasherState{kind: kind}}
			return Iface{T: typesPointer(t), V: &cell}
		}
	}
	reg("crypto/sha256.New", mkHasher("sha256"))
	reg("golang.org/x/crypto/ripemd160.New", mkHasher("ripemd160"))
	reg("golang.org/x/crypto/sha3.NewLegacyKeccak256", mkHasher("keccak256"))
	reg("golang.org/x/crypto/sha3.New256", mkHasher("sha3-256"))
	reg("(*crypto/sha256.digest).Write", func(fr *frame, fn *ssa.Function, a []Value) Value {
		hs := hasherOf(a[0])
		in := sliceTerms(a[1])
		hs.buf = append(hs.buf, in...)
		return Tuple{BVI(64, int64(len(in))), Iface{}}
	})
	reg("(*crypto/sha256.digest).Sum", func(fr *frame, fn *ssa.Function, a []Value) Value {
		hs := hasherOf(a[0])
		var nat func([]byte) []byte
		n := 32
		switch hs.kind {
		case "sha256":
			nat = nativeOf(sha256.New)
		case "ripemd160":
			nat, n = nativeOf(ripemd160.New), 20
		case "keccak256":
			nat = nativeOf(sha3.NewLegacyKeccak256)
		case "sha3-256":
			nat = nativeOf(sha3.New256)
		}
		out := fr.p.hashModel(hs.kind, append([]*Term{}, hs.buf...), n, nat)
		prefix, _ := a[1].(SliceV)
		res := append(SliceV{}, prefix...)
		return append(res, termsSlice(out)...)
	})
	reg("(*crypto/sha256.digest).Reset", func(fr *frame, fn *ssa.Function, a []Value) Value {
		hasherOf(a[0]).buf = nil
		return nil
	})
	reg("(*crypto/sha256.digest).Size", func(fr *frame, fn *ssa.Function, a []Value) Value {
		if hasherOf(a[0]).kind == "ripemd160" {
			return BVI(64, 20)
		}
		return BVI(64, 32)
	})
	reg("(*crypto/sha256.digest).BlockSize", func(fr *frame, fn *ssa.Function, a []Value) Value { return BVI(64, 64) })
	_ = fmt.Sprint
}

type hasherState struct {
	kind string
	buf  []*Term
}

func hasherOf(v Value) *hasherState {
	cell, ok := v.(*Value)
	if !ok || cell == nil {
		panic(&goPanic{kind: "nil-deref", msg: "nil hasher"})
	}
	op, ok := (*cell).(Opaque)
	if !ok || op.Kind != "hasher" {
		panic(unsupported("hash.Hash value is not the modelled hasher"))
	}
	return op.X.(*hasherState)
}

func typesPointer(t types.Type) types.Type { return types.NewPointer(t) }
