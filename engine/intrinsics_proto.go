package main

// google.golang.org/protobuf/proto.Marshal / Unmarshal.
//
// Marshal(m) returns an opaque one-element byte slice that carries a deep copy
// of the message (the repository never looks inside encodings, it only passes
// them on). Unmarshal of such bytes restores the message (with protobuf's
// normalisation: empty bytes/repeated fields come back nil). Unmarshal of any
// other bytes either fails or yields an ARBITRARY message of the target type
// that a protobuf decoder can produce: scalar fields symbolic, each
// sub-message pointer absent or present, bytes/strings/repeated fields of a
// few lengths, repeated message elements never nil, strings ASCII.

import (
	"go/types"
	"strings"

	"golang.org/x/tools/go/ssa"
)

const protoPkg = "google.golang.org/protobuf/proto"

var protoBytesLens = []int{0, 2, 20, 32}

func isProtoInternalField(f *types.Var) bool {
	switch f.Name() {
	case "state", "sizeCache", "unknownFields", "extensionFields", "weakFields":
		return true
	}
	return !f.Exported()
}

func (p *Path) arbitraryProtoValue(fr *frame, t types.Type, depth int) Value {
	switch u := t.Underlying().(type) {
	case *types.Basic:
		switch {
		case u.Info()&types.IsBoolean != 0:
			return p.internalVar("pb", SBool)
		case u.Info()&types.IsInteger != 0:
			w, _ := basicWidth(u)
			return p.internalVar("pb", SBV(w))
		case u.Info()&types.IsString != 0:
			n := p.protoProfile.strLen
			bs := make([]*Term, n)
			for i := range bs {
				b := p.internalVar("pbc", SBV(8))
				p.assume(BVUlt(b, BVU(8, 0x80)))
				bs[i] = b
			}
			return mkStr(bs)
		case u.Info()&types.IsFloat != 0:
			return FloatV(0)
		}
	case *types.Slice:
		if b, ok := u.Elem().Underlying().(*types.Basic); ok && b.Kind() == types.Uint8 {
			n := p.protoProfile.bytesLen
			if n == 0 {
				return SliceV(nil)
			}
			s := make(SliceV, n)
			for i := range s {
				s[i] = p.internalVar("pbb", SBV(8))
			}
			return s
		}
		n := p.protoProfile.repLen
		if n == 0 {
			return SliceV(nil)
		}
		s := make(SliceV, n)
		for i := range s {
			s[i] = p.arbitraryProtoElem(fr, u.Elem(), depth)
		}
		return s
	case *types.Pointer:
		if depth <= 0 || p.choose(make([]*Term, 2), "proto submessage present") == 0 {
			return (*Value)(nil)
		}
		return p.arbitraryProtoElem(fr, t, depth)
	case *types.Map:
		m := &MapV{KT: u.Key(), VT: u.Elem()}
		if p.choose(make([]*Term, 2), "proto map entries") == 1 {
			p.mapInsert(m, p.arbitraryProtoValue(fr, u.Key(), depth), p.arbitraryProtoElem(fr, u.Elem(), depth))
		} else {
			return (*MapV)(nil)
		}
		return m
	case *types.Interface:
		return Iface{} // oneof not set
	}
	return zero(t)
}

// element of a repeated field / present sub-message: messages are never nil
func (p *Path) arbitraryProtoElem(fr *frame, t types.Type, depth int) Value {
	if pt, ok := t.Underlying().(*types.Pointer); ok {
		if st, ok := pt.Elem().Underlying().(*types.Struct); ok {
			var cell Value = p.arbitraryProtoStruct(fr, pt.Elem(), st, depth-1)
			return &cell
		}
	}
	return p.arbitraryProtoValue(fr, t, depth)
}

func (p *Path) arbitraryProtoStruct(fr *frame, named types.Type, st *types.Struct, depth int) Struct {
	s := zero(named).(Struct)
	for i := 0; i < st.NumFields(); i++ {
		f := st.Field(i)
		if isProtoInternalField(f) {
			continue
		}
		s[i] = p.arbitraryProtoValue(fr, f.Type(), depth)
	}
	return s
}

// normalise what a decoder would return for an encoded message
func protoNormalise(v Value) Value {
	switch x := v.(type) {
	case SliceV:
		if len(x) == 0 {
			return SliceV(nil)
		}
		r := make(SliceV, len(x))
		for i, e := range x {
			r[i] = protoNormalise(e)
		}
		return r
	case Struct:
		r := make(Struct, len(x))
		for i, e := range x {
			r[i] = protoNormalise(e)
		}
		return r
	case *Value:
		if x == nil {
			return x
		}
		var cell Value = protoNormalise(*x)
		return &cell
	case *MapV:
		if x == nil || len(x.Entries) == 0 {
			return (*MapV)(nil)
		}
		m := &MapV{KT: x.KT, VT: x.VT}
		for _, e := range x.Entries {
			m.Entries = append(m.Entries, &MapEntry{K: e.K, V: protoNormalise(e.V)})
		}
		return m
	}
	return v
}

type pbCarrier struct {
	typ types.Type
	val Struct
}

func init() {
	reg(protoPkg+".Marshal", func(fr *frame, fn *ssa.Function, a []Value) Value {
		it, ok := a[0].(Iface)
		if !ok || it.T == nil {
			return Tuple{SliceV(nil), Iface{}}
		}
		ptr, ok := it.V.(*Value)
		if !ok || ptr == nil {
			return Tuple{SliceV(nil), Iface{}}
		}
		st, ok := (*ptr).(Struct)
		if !ok {
			panic(unsupported("proto.Marshal of non-struct message"))
		}
		carrier := Opaque{Kind: "pbmsg", X: &pbCarrier{typ: it.T, val: protoNormalise(st).(Struct)}}
		return Tuple{SliceV{carrier}, Iface{}}
	})
	reg(protoPkg+".Unmarshal", func(fr *frame, fn *ssa.Function, a []Value) Value {
		p := fr.p
		b, _ := a[0].(SliceV)
		it, ok := a[1].(Iface)
		if !ok || it.T == nil {
			panic(&goPanic{kind: "nil-deref", msg: "proto.Unmarshal into nil message"})
		}
		ptr, ok := it.V.(*Value)
		if !ok || ptr == nil {
			panic(&goPanic{kind: "nil-deref", msg: "proto.Unmarshal into nil message"})
		}
		mkErr := func() Value { return p.makeError(fr, StrV{S: "proto: cannot parse invalid wire-format data"}, nil) }
		if len(b) == 1 {
			if op, ok := b[0].(Opaque); ok && op.Kind == "pbmsg" {
				c := op.X.(*pbCarrier)
				if typeKey(c.typ) != typeKey(it.T) {
					return mkErr()
				}
				*ptr = protoNormalise(c.val)
				return Iface{}
			}
		}
		if p.concreteMode {
			return mkErr()
		}
		// arbitrary bytes: decoding fails, or yields an arbitrary decodable message
		if p.choose(make([]*Term, 2), "proto.Unmarshal outcome") == 0 {
			return mkErr()
		}
		pt := it.T.Underlying().(*types.Pointer)
		st, ok := pt.Elem().Underlying().(*types.Struct)
		if !ok {
			panic(unsupported("proto.Unmarshal into non-struct"))
		}
		p.protoCalls++
		// one length profile per decoded message: all bytes fields share a
		// length, all repeated fields a count, all strings a length (presence of
		// each sub-message stays an independent choice)
		lens := protoBytesLens
		if len(p.P.cfg.ProtoBytesLens) > 0 {
			lens = p.P.cfg.ProtoBytesLens
		}
		nrep := 3
		if p.protoCalls > 1 {
			lens, nrep = []int{0, 2}, 2 // nested decodings: reduced menu
		}
		p.protoProfile.bytesLen = lens[p.choose(make([]*Term, len(lens)), "proto bytes len")]
		p.protoProfile.repLen = p.choose(make([]*Term, nrep), "proto repeated len")
		p.protoProfile.strLen = p.choose(make([]*Term, 2), "proto string len") * 2
		depth := p.P.cfg.ProtoDepth
		if depth == 0 {
			depth = 2
		}
		*ptr = p.arbitraryProtoStruct(fr, pt.Elem(), st, depth)
		return Iface{}
	})
	_ = strings.Contains
}
