package main

// math/rand, crypto/rand, hashes as uninterpreted functions, time.

import (
	"fmt"
	"go/types"

	"golang.org/x/tools/go/ssa"
)

type randState struct {
	seed *Term // BV64
	k    int
}

// draw k of the generator seeded s: UF_rand(s, k), nothing else assumed.
func (p *Path) randDraw(rs *randState) *Term {
	t := newTerm("app", SBV(64), rs.seed, BVI(64, int64(rs.k)))
	t.Name = "UF_rand"
	rs.k++
	return t
}

func randStateOf(fr *frame, r Value) *randState {
	st := structCell(r, "rand.Rand method")
	src, ok := st[0].(Iface)
	if !ok || src.T == nil {
		panic(&goPanic{kind: "nil-deref", msg: "rand.Rand with nil source"})
	}
	cell, ok := src.V.(*Value)
	if !ok || cell == nil {
		panic(unsupported("rand source is not the modelled source"))
	}
	op, ok := (*cell).(Opaque)
	if !ok || op.Kind != "randsrc" {
		panic(unsupported("rand source is not the modelled source"))
	}
	return op.X.(*randState)
}

// uniform draw in [0,n) for a BV64 n (n > 0 assumed by callers' panics)
func (p *Path) randBelow(rs *randState, n *Term) *Term {
	return BVURem(p.randDraw(rs), n)
}

func init() {
	reg("math/rand.NewSource", func(fr *frame, fn *ssa.Function, a []Value) Value {
		t := fr.p.P.namedType("math/rand", "rngSource")
		var cell Value = Opaque{Kind: "randsrc", X: &randState{seed: termOf(a[0])}}
		return Iface{T: types.NewPointer(t), V: &cell}
	})
	reg("(*math/rand.rngSource).Int63", func(fr *frame, fn *ssa.Function, a []Value) Value {
		op := (*(a[0].(*Value))).(Opaque)
		return BVLshr(fr.p.randDraw(op.X.(*randState)), BVU(64, 1))
	})
	reg("(*math/rand.rngSource).Uint64", func(fr *frame, fn *ssa.Function, a []Value) Value {
		op := (*(a[0].(*Value))).(Opaque)
		return fr.p.randDraw(op.X.(*randState))
	})
	reg("(*math/rand.rngSource).Seed", func(fr *frame, fn *ssa.Function, a []Value) Value {
		op := (*(a[0].(*Value))).(Opaque)
		rs := op.X.(*randState)
		rs.seed, rs.k = termOf(a[1]), 0
		return nil
	})
	reg("(*math/rand.Rand).Shuffle", func(fr *frame, fn *ssa.Function, a []Value) Value {
		rs := randStateOf(fr, a[0])
		n, ok := concInt(a[1])
		if !ok {
			panic(unsupported("rand.Shuffle with symbolic n"))
		}
		if n < 0 {
			panic(&goPanic{kind: "explicit", msg: "invalid argument to Shuffle"})
		}
		for i := n - 1; i > 0; i-- {
			j := fr.p.randBelow(rs, BVI(64, i+1))
			fr.p.call(fr, a[2], []Value{BVI(64, i), j})
		}
		return nil
	})
	below := func(name string, w int) {
		reg("(*math/rand.Rand)."+name, func(fr *frame, fn *ssa.Function, a []Value) Value {
			rs := randStateOf(fr, a[0])
			n := termOf(a[1])
			if fr.p.branch(BVSle(n, BVI(w, 0))) {
				panic(&goPanic{kind: "explicit", msg: "invalid argument to " + name})
			}
			r := fr.p.randBelow(rs, ZExt(n, 64))
			return Extract(w-1, 0, r)
		})
	}
	below("Intn", 64)
	below("Int63n", 64)
	below("Int31n", 32)
	reg("(*math/rand.Rand).Int63", func(fr *frame, fn *ssa.Function, a []Value) Value {
		return BVLshr(fr.p.randDraw(randStateOf(fr, a[0])), BVU(64, 1))
	})
	reg("(*math/rand.Rand).Int", func(fr *frame, fn *ssa.Function, a []Value) Value {
		return BVLshr(fr.p.randDraw(randStateOf(fr, a[0])), BVU(64, 1))
	})
	reg("(*math/rand.Rand).Uint64", func(fr *frame, fn *ssa.Function, a []Value) Value {
		return fr.p.randDraw(randStateOf(fr, a[0]))
	})
	reg("(*math/rand.Rand).Uint32", func(fr *frame, fn *ssa.Function, a []Value) Value {
		return Extract(31, 0, fr.p.randDraw(randStateOf(fr, a[0])))
	})
	reg("(*math/rand.Rand).Int31", func(fr *frame, fn *ssa.Function, a []Value) Value {
		return ZExt(Extract(30, 0, fr.p.randDraw(randStateOf(fr, a[0]))), 32)
	})
	// Float64 in [0,1): represented as a 53-bit numerator; only comparisons
	// against constants are supported (see float handling: FloatSym).
	reg("(*math/rand.Rand).Float64", func(fr *frame, fn *ssa.Function, a []Value) Value {
		d := fr.p.randDraw(randStateOf(fr, a[0]))
		return FloatSym{Num: Extract(52, 0, d)}
	})
	reg("(*math/rand.Rand).Perm", func(fr *frame, fn *ssa.Function, a []Value) Value {
		rs := randStateOf(fr, a[0])
		n, ok := concInt(a[1])
		if !ok {
			panic(unsupported("rand.Perm symbolic n"))
		}
		m := make(SliceV, n)
		for i := range m {
			m[i] = BVI(64, 0)
		}
		// same algorithm as the library: inside-out Fisher–Yates
		for i := int64(0); i < n; i++ {
			j := fr.p.concretizeRange(fr.p.randBelow(rs, BVI(64, i+1)), 0, int(i))
			m[i] = m[j]
			m[j] = BVI(64, i)
		}
		return m
	})
	// global generator: fresh values
	reg("math/rand.Intn", func(fr *frame, fn *ssa.Function, a []Value) Value {
		n := termOf(a[0])
		v := fr.p.internalVar("rand", SBV(64))
		fr.p.assume(BVUlt(v, n))
		return v
	})
	reg("math/rand.Int63", func(fr *frame, fn *ssa.Function, a []Value) Value {
		return BVLshr(fr.p.internalVar("rand", SBV(64)), BVU(64, 1))
	})
	reg("math/rand.Seed", func(fr *frame, fn *ssa.Function, a []Value) Value { return nil })
	reg("crypto/rand.Read", func(fr *frame, fn *ssa.Function, a []Value) Value {
		b := a[0].(SliceV)
		for i := range b {
			b[i] = fr.p.internalVar("crand", SBV(8))
		}
		return Tuple{BVI(64, int64(len(b))), Iface{}}
	})
	// crypto/rand.Int(reader, max): an arbitrary value in [0, max); panics for max <= 0 like the library
	reg("crypto/rand.Int", func(fr *frame, fn *ssa.Function, a []Value) Value {
		max := bigOf(a[1], "rand.Int")
		if fr.p.branch(ILe(max, IntI(0))) {
			panic(&goPanic{kind: "explicit", msg: "crypto/rand: argument to Int is <= 0"})
		}
		v := fr.p.internalVar("crandint", SInt)
		if fr.p.P.cfg.CrandNonzero {
			// callers that redraw on zero: the zero draw is unobservable, skip it
			fr.p.assume(ILe(IntI(1), v))
		} else {
			fr.p.assume(ILe(IntI(0), v))
		}
		fr.p.assume(ILt(v, max))
		return Tuple{newBig(v), Iface{}}
	})
	_ = fmt.Sprint
}

// FloatSym: a float64 known only as numerator/2^53 in [0,1) (rand.Float64).
type FloatSym struct{ Num *Term }
