package main

// sync, sync/atomic, sort, bytes/bytealg models.

import (
	"fmt"
	"go/types"

	"golang.org/x/tools/go/ssa"
)

func structCell(v Value, what string) Struct {
	p, ok := v.(*Value)
	if !ok || p == nil {
		panic(&goPanic{kind: "nil-deref", msg: "nil receiver in " + what})
	}
	s, ok := (*p).(Struct)
	if !ok {
		panic(unsupported(fmt.Sprintf("%s: receiver cell holds %T", what, *p)))
	}
	return s
}

func isZeroTerm(v Value) bool {
	t := v.(*Term)
	return t.IsConst() && t.C.Sign() == 0
}

func mutexLock(fr *frame, m Struct) {
	p := fr.p
	p.preemptPoint(fr.th)
	p.block(fr.th, func() bool { return isZeroTerm(m[0]) })
	m[0] = BVI(32, 1)
	p.raceAcquire(fr.th, &m[0])
}

func mutexUnlock(fr *frame, m Struct) {
	if isZeroTerm(m[0]) {
		panic(&goPanic{kind: "fatal", msg: "sync: unlock of unlocked mutex"})
	}
	fr.p.raceRelease(fr.th, &m[0])
	m[0] = BVI(32, 0)
	fr.p.preemptPoint(fr.th)
}

func scalarCell(v Value, what string) *Value {
	p, ok := v.(*Value)
	if !ok || p == nil {
		panic(&goPanic{kind: "nil-deref", msg: "nil address in " + what})
	}
	return p
}

// atomicSync: an atomic operation both publishes and observes (sequentially
// consistent atomics), for the race detector.
func atomicSync(fr *frame, c *Value) {
	fr.p.raceAcquire(fr.th, c)
	fr.p.raceRelease(fr.th, c)
}

func init() {
	reg("(*sync.Mutex).Lock", func(fr *frame, fn *ssa.Function, a []Value) Value {
		mutexLock(fr, structCell(a[0], "Mutex.Lock"))
		return nil
	})
	reg("(*sync.Mutex).Unlock", func(fr *frame, fn *ssa.Function, a []Value) Value {
		mutexUnlock(fr, structCell(a[0], "Mutex.Unlock"))
		return nil
	})
	reg("(*sync.Mutex).TryLock", func(fr *frame, fn *ssa.Function, a []Value) Value {
		m := structCell(a[0], "Mutex.TryLock")
		fr.p.preemptPoint(fr.th)
		if isZeroTerm(m[0]) {
			m[0] = BVI(32, 1)
			fr.p.raceAcquire(fr.th, &m[0])
			return TTrue
		}
		return TFalse
	})
	// RWMutex{w Mutex; writerSem, readerSem uint32; readerCount, readerWait atomic.Int32}
	// model: writerSem = writer held flag, readerSem = active readers
	reg("(*sync.RWMutex).Lock", func(fr *frame, fn *ssa.Function, a []Value) Value {
		m := structCell(a[0], "RWMutex.Lock")
		fr.p.preemptPoint(fr.th)
		fr.p.block(fr.th, func() bool { return isZeroTerm(m[1]) && isZeroTerm(m[2]) })
		m[1] = BVU(32, 1)
		fr.p.raceAcquire(fr.th, &m[0])
		return nil
	})
	reg("(*sync.RWMutex).Unlock", func(fr *frame, fn *ssa.Function, a []Value) Value {
		m := structCell(a[0], "RWMutex.Unlock")
		if isZeroTerm(m[1]) {
			panic(&goPanic{kind: "fatal", msg: "sync: Unlock of unlocked RWMutex"})
		}
		fr.p.raceRelease(fr.th, &m[0])
		m[1] = BVU(32, 0)
		fr.p.preemptPoint(fr.th)
		return nil
	})
	reg("(*sync.RWMutex).RLock", func(fr *frame, fn *ssa.Function, a []Value) Value {
		m := structCell(a[0], "RWMutex.RLock")
		fr.p.preemptPoint(fr.th)
		fr.p.block(fr.th, func() bool { return isZeroTerm(m[1]) })
		m[2] = BVAdd(m[2].(*Term), BVU(32, 1))
		fr.p.raceAcquire(fr.th, &m[0])
		return nil
	})
	reg("(*sync.RWMutex).RUnlock", func(fr *frame, fn *ssa.Function, a []Value) Value {
		m := structCell(a[0], "RWMutex.RUnlock")
		if isZeroTerm(m[2]) {
			panic(&goPanic{kind: "fatal", msg: "sync: RUnlock of unlocked RWMutex"})
		}
		fr.p.raceRelease(fr.th, &m[0])
		m[2] = BVSub(m[2].(*Term), BVU(32, 1))
		fr.p.preemptPoint(fr.th)
		return nil
	})
	// WaitGroup{noCopy; state atomic.Uint64; sema uint32}: model counter in sema
	reg("(*sync.WaitGroup).Add", func(fr *frame, fn *ssa.Function, a []Value) Value {
		w := structCell(a[0], "WaitGroup.Add")
		d := termOf(a[1])
		fr.p.preemptPoint(fr.th)
		n := BVAdd(w[2].(*Term), Extract(31, 0, d))
		if n.IsConst() && n.Int64() < 0 {
			panic(&goPanic{kind: "explicit", msg: "sync: negative WaitGroup counter"})
		}
		w[2] = n
		return nil
	})
	reg("(*sync.WaitGroup).Done", func(fr *frame, fn *ssa.Function, a []Value) Value {
		w := structCell(a[0], "WaitGroup.Done")
		fr.p.raceRelease(fr.th, &w[2])
		fr.p.preemptPoint(fr.th)
		n := BVSub(w[2].(*Term), BVU(32, 1))
		if n.IsConst() && n.Int64() < 0 {
			panic(&goPanic{kind: "explicit", msg: "sync: negative WaitGroup counter"})
		}
		w[2] = n
		return nil
	})
	reg("(*sync.WaitGroup).Wait", func(fr *frame, fn *ssa.Function, a []Value) Value {
		w := structCell(a[0], "WaitGroup.Wait")
		fr.p.preemptPoint(fr.th)
		fr.p.block(fr.th, func() bool { return isZeroTerm(w[2]) })
		fr.p.raceAcquire(fr.th, &w[2])
		return nil
	})
	// Once{done atomic.Uint32; m Mutex}: model flag in m.state: 0 fresh, 2 running, 1 done
	reg("(*sync.Once).Do", func(fr *frame, fn *ssa.Function, a []Value) Value {
		o := structCell(a[0], "Once.Do")
		m := o[1].(Struct)
		fr.p.preemptPoint(fr.th)
		st := m[0].(*Term)
		switch st.Int64() {
		case 1:
			fr.p.raceAcquire(fr.th, &m[0])
			return nil
		case 2:
			fr.p.block(fr.th, func() bool { return m[0].(*Term).Int64() == 1 })
			fr.p.raceAcquire(fr.th, &m[0])
			return nil
		}
		m[0] = BVI(32, 2)
		defer func() { fr.p.raceRelease(fr.th, &m[0]); m[0] = BVI(32, 1) }()
		fr.p.call(fr, a[1], nil)
		return nil
	})
	reg("(*sync.Pool).Get", func(fr *frame, fn *ssa.Function, a []Value) Value {
		pl := structCell(a[0], "Pool.Get")
		newFn := pl[len(pl)-1]
		if isNilValue(newFn) {
			return Iface{}
		}
		return fr.p.call(fr, newFn, nil)
	})
	reg("(*sync.Pool).Put", func(fr *frame, fn *ssa.Function, a []Value) Value { return nil })

	// ---- sync/atomic ----
	for _, ty := range []string{"Int32", "Int64", "Uint32", "Uint64", "Uintptr"} {
		ty := ty
		reg("sync/atomic.Load"+ty, func(fr *frame, fn *ssa.Function, a []Value) Value {
			c := scalarCell(a[0], "atomic.Load")
			atomicSync(fr, c)
			fr.p.preemptPoint(fr.th)
			return *c
		})
		reg("sync/atomic.Store"+ty, func(fr *frame, fn *ssa.Function, a []Value) Value {
			c := scalarCell(a[0], "atomic.Store")
			atomicSync(fr, c)
			fr.p.preemptPoint(fr.th)
			*c = a[1]
			return nil
		})
		reg("sync/atomic.Add"+ty, func(fr *frame, fn *ssa.Function, a []Value) Value {
			c := scalarCell(a[0], "atomic.Add")
			atomicSync(fr, c)
			fr.p.preemptPoint(fr.th)
			n := BVAdd((*c).(*Term), termOf(a[1]))
			*c = n
			return n
		})
		reg("sync/atomic.Swap"+ty, func(fr *frame, fn *ssa.Function, a []Value) Value {
			c := scalarCell(a[0], "atomic.Swap")
			atomicSync(fr, c)
			fr.p.preemptPoint(fr.th)
			old := *c
			*c = a[1]
			return old
		})
		reg("sync/atomic.CompareAndSwap"+ty, func(fr *frame, fn *ssa.Function, a []Value) Value {
			c := scalarCell(a[0], "atomic.CAS")
			atomicSync(fr, c)
			fr.p.preemptPoint(fr.th)
			if fr.p.branch(Eq((*c).(*Term), termOf(a[1]))) {
				*c = a[2]
				return TTrue
			}
			return TFalse
		})
	}
	reg("sync/atomic.LoadPointer", func(fr *frame, fn *ssa.Function, a []Value) Value {
		c := scalarCell(a[0], "atomic.LoadPointer")
			atomicSync(fr, c)
		fr.p.preemptPoint(fr.th)
		return *c
	})
	reg("sync/atomic.StorePointer", func(fr *frame, fn *ssa.Function, a []Value) Value {
		c := scalarCell(a[0], "atomic.StorePointer")
			atomicSync(fr, c)
		fr.p.preemptPoint(fr.th)
		*c = a[1]
		return nil
	})
	reg("sync/atomic.SwapPointer", func(fr *frame, fn *ssa.Function, a []Value) Value {
		c := scalarCell(a[0], "atomic.SwapPointer")
			atomicSync(fr, c)
		fr.p.preemptPoint(fr.th)
		old := *c
		*c = a[1]
		return old
	})
	reg("sync/atomic.CompareAndSwapPointer", func(fr *frame, fn *ssa.Function, a []Value) Value {
		c := scalarCell(a[0], "atomic.CASPointer")
			atomicSync(fr, c)
		fr.p.preemptPoint(fr.th)
		if equals(*c, a[1]).IsTrue() {
			*c = a[2]
			return TTrue
		}
		return TFalse
	})
	// atomic.Value{v any}
	reg("(*sync/atomic.Value).Load", func(fr *frame, fn *ssa.Function, a []Value) Value {
		s := structCell(a[0], "atomic.Value.Load")
		atomicSync(fr, &s[0])
		fr.p.preemptPoint(fr.th)
		return s[0]
	})
	reg("(*sync/atomic.Value).Store", func(fr *frame, fn *ssa.Function, a []Value) Value {
		s := structCell(a[0], "atomic.Value.Store")
		atomicSync(fr, &s[0])
		fr.p.preemptPoint(fr.th)
		s[0] = a[1]
		return nil
	})

	// ---- sort: insertion sort driven by the program's own comparison ----
	reg("sort.Sort", sortIface)
	reg("sort.Stable", sortIface)
	reg("sort.Slice", sortSlice)
	reg("sort.SliceStable", sortSlice)
	reg("sort.Strings", func(fr *frame, fn *ssa.Function, a []Value) Value {
		s := a[0].(SliceV)
		insertionSort(len(s), func(i, j int) bool { return fr.p.branch(strLt(s[i].(StrV), s[j].(StrV))) },
			func(i, j int) { s[i], s[j] = s[j], s[i] })
		return nil
	})
	reg("sort.Ints", func(fr *frame, fn *ssa.Function, a []Value) Value {
		s := a[0].(SliceV)
		insertionSort(len(s), func(i, j int) bool { return fr.p.branch(BVSlt(s[i].(*Term), s[j].(*Term))) },
			func(i, j int) { s[i], s[j] = s[j], s[i] })
		return nil
	})

	// ---- bytes / bytealg ----
	reg("bytes.Equal", func(fr *frame, fn *ssa.Function, a []Value) Value {
		return bytesEq(a[0].(SliceV), a[1].(SliceV))
	})
	reg("internal/bytealg.Equal", func(fr *frame, fn *ssa.Function, a []Value) Value {
		return bytesEq(a[0].(SliceV), a[1].(SliceV))
	})
	reg("bytes.Compare", func(fr *frame, fn *ssa.Function, a []Value) Value {
		x, y := bytesStr(a[0].(SliceV)), bytesStr(a[1].(SliceV))
		return Ite(strLt(x, y), BVI(64, -1), Ite(strEq(x, y), BVI(64, 0), BVI(64, 1)))
	})
	reg("strings.Compare", func(fr *frame, fn *ssa.Function, a []Value) Value {
		x, y := a[0].(StrV), a[1].(StrV)
		return Ite(strLt(x, y), BVI(64, -1), Ite(strEq(x, y), BVI(64, 0), BVI(64, 1)))
	})
	reg("internal/bytealg.IndexByte", func(fr *frame, fn *ssa.Function, a []Value) Value {
		return indexByte(fr, bytesStr(a[0].(SliceV)), termOf(a[1]))
	})
	reg("internal/bytealg.IndexByteString", func(fr *frame, fn *ssa.Function, a []Value) Value {
		return indexByte(fr, a[0].(StrV), termOf(a[1]))
	})
	reg("bytes.IndexByte", func(fr *frame, fn *ssa.Function, a []Value) Value {
		return indexByte(fr, bytesStr(a[0].(SliceV)), termOf(a[1]))
	})
	reg("strings.IndexByte", func(fr *frame, fn *ssa.Function, a []Value) Value {
		return indexByte(fr, a[0].(StrV), termOf(a[1]))
	})
	reg("internal/bytealg.CountString", func(fr *frame, fn *ssa.Function, a []Value) Value {
		s := a[0].(StrV)
		c := termOf(a[1])
		n := BVI(64, 0)
		for i := 0; i < s.Len(); i++ {
			n = BVAdd(n, Ite(Eq(s.Byte(i), c), BVI(64, 1), BVI(64, 0)))
		}
		return n
	})
	reg("internal/bytealg.IndexString", func(fr *frame, fn *ssa.Function, a []Value) Value {
		s, sub := a[0].(StrV), a[1].(StrV)
		if !s.IsConc() || !sub.IsConc() {
			panic(unsupported("bytealg.IndexString on symbolic strings"))
		}
		return BVI(64, int64(indexStr(s.S, sub.S)))
	})
	reg("internal/bytealg.MakeNoZero", func(fr *frame, fn *ssa.Function, a []Value) Value {
		n, ok := concInt(a[0])
		if !ok {
			panic(unsupported("MakeNoZero symbolic"))
		}
		s := make(SliceV, n)
		for i := range s {
			s[i] = BVU(8, 0)
		}
		return s
	})
	reg("internal/godebug.New", func(fr *frame, fn *ssa.Function, a []Value) Value { return (*Value)(nil) })
	reg("(*internal/godebug.Setting).Value", func(fr *frame, fn *ssa.Function, a []Value) Value { return StrV{} })
	reg("(*internal/godebug.Setting).IncNonDefault", func(fr *frame, fn *ssa.Function, a []Value) Value { return nil })
	reg("runtime.Gosched", func(fr *frame, fn *ssa.Function, a []Value) Value {
		fr.p.preemptPoint(fr.th)
		return nil
	})
	// strings.Builder{addr *Builder; buf []byte}: String() reinterprets buf via unsafe
	reg("(*strings.Builder).String", func(fr *frame, fn *ssa.Function, a []Value) Value {
		st := structCell(a[0], "strings.Builder.String")
		buf, _ := st[1].(SliceV)
		return bytesStr(buf)
	})
	reg("(*strings.Builder).copyCheck", func(fr *frame, fn *ssa.Function, a []Value) Value { return nil })
	reg("internal/abi.NoEscape", func(fr *frame, fn *ssa.Function, a []Value) Value { return a[0] })
	reg("internal/abi.Escape", func(fr *frame, fn *ssa.Function, a []Value) Value { return a[0] })
	reg("runtime.GOMAXPROCS", func(fr *frame, fn *ssa.Function, a []Value) Value { return BVI(64, 4) })
	reg("runtime.NumCPU", func(fr *frame, fn *ssa.Function, a []Value) Value { return BVI(64, 4) })
	reg("runtime.KeepAlive", func(fr *frame, fn *ssa.Function, a []Value) Value { return nil })
	reg("runtime.SetFinalizer", func(fr *frame, fn *ssa.Function, a []Value) Value { return nil })
	reg("reflect.DeepEqual", func(fr *frame, fn *ssa.Function, a []Value) Value {
		return deepEqual(a[0], a[1])
	})
}

func indexStr(s, sub string) int {
	for i := 0; i+len(sub) <= len(s); i++ {
		if s[i:i+len(sub)] == sub {
			return i
		}
	}
	return -1
}

func bytesStr(s SliceV) StrV {
	bs := make([]*Term, len(s))
	for i, e := range s {
		bs[i] = termOf(e)
	}
	return mkStr(bs)
}

func bytesEq(x, y SliceV) *Term {
	if len(x) != len(y) {
		return TFalse
	}
	r := TTrue
	for i := range x {
		r = And(r, Eq(termOf(x[i]), termOf(y[i])))
		if r.IsFalse() {
			return r
		}
	}
	return r
}

func indexByte(fr *frame, s StrV, c *Term) Value {
	r := BVI(64, -1)
	for i := s.Len() - 1; i >= 0; i-- {
		r = Ite(Eq(s.Byte(i), c), BVI(64, int64(i)), r)
	}
	return r
}

func insertionSort(n int, less func(i, j int) bool, swap func(i, j int)) {
	for i := 1; i < n; i++ {
		for j := i; j > 0 && less(j, j-1); j-- {
			swap(j, j-1)
		}
	}
}

func sortIface(fr *frame, fn *ssa.Function, a []Value) Value {
	data := a[0].(Iface)
	p := fr.p
	ln, _ := p.callMethodByName(fr, data, "Len")
	n, ok := concInt(ln)
	if !ok {
		panic(unsupported("sort: symbolic Len"))
	}
	insertionSort(int(n), func(i, j int) bool {
		r, _ := p.callMethodByName(fr, data, "Less", BVI(64, int64(i)), BVI(64, int64(j)))
		return p.branch(termOf(r))
	}, func(i, j int) {
		p.callMethodByName(fr, data, "Swap", BVI(64, int64(i)), BVI(64, int64(j)))
	})
	return nil
}

func sortSlice(fr *frame, fn *ssa.Function, a []Value) Value {
	it := a[0].(Iface)
	s, ok := it.V.(SliceV)
	if !ok {
		panic(unsupported("sort.Slice on non-slice"))
	}
	p := fr.p
	insertionSort(len(s), func(i, j int) bool {
		r := p.call(fr, a[1], []Value{BVI(64, int64(i)), BVI(64, int64(j))})
		return p.branch(termOf(r))
	}, func(i, j int) { s[i], s[j] = s[j], s[i] })
	return nil
}

func deepEqual(a, b Value) *Term {
	switch x := a.(type) {
	case Iface:
		y, ok := b.(Iface)
		if !ok {
			return TFalse
		}
		if x.T == nil || y.T == nil {
			return BoolC(x.T == nil && y.T == nil)
		}
		if !types.Identical(x.T, y.T) {
			return TFalse
		}
		return deepEqual(x.V, y.V)
	case SliceV:
		y, ok := b.(SliceV)
		if !ok || len(x) != len(y) || (x == nil) != (y == nil) {
			return TFalse
		}
		r := TTrue
		for i := range x {
			r = And(r, deepEqual(x[i], y[i]))
		}
		return r
	case Struct:
		y, ok := b.(Struct)
		if !ok || len(x) != len(y) {
			return TFalse
		}
		r := TTrue
		for i := range x {
			r = And(r, deepEqual(x[i], y[i]))
		}
		return r
	case Array:
		y, ok := b.(Array)
		if !ok || len(x) != len(y) {
			return TFalse
		}
		r := TTrue
		for i := range x {
			r = And(r, deepEqual(x[i], y[i]))
		}
		return r
	case *Value:
		y, ok := b.(*Value)
		if !ok {
			return TFalse
		}
		if x == nil || y == nil {
			return BoolC(x == nil && y == nil)
		}
		if x == y {
			return TTrue
		}
		return deepEqual(*x, *y)
	case *MapV:
		y, ok := b.(*MapV)
		if !ok {
			return TFalse
		}
		if x == nil || y == nil {
			return BoolC(x == nil && y == nil)
		}
		if len(x.Entries) != len(y.Entries) {
			return TFalse
		}
		r := TTrue
		for _, e := range x.Entries {
			found := TFalse
			for _, f := range y.Entries {
				found = Or(found, And(equals(e.K, f.K), deepEqual(e.V, f.V)))
			}
			r = And(r, found)
		}
		return r
	}
	return equals(a, b)
}
