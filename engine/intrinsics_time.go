package main

// time: the clock is an environment variable. Now() returns a Time carrying a
// monotonic reading (wall has the hasMonotonic bit, ext = nanoseconds) that
// is a fresh symbolic value not smaller than the previous reading; timers
// and tickers are environment channels that may fire at any moment (bounded
// by max_env_fires per channel); Sleep is a scheduling point.

import (
	"go/types"
	"math/big"

	"golang.org/x/tools/go/ssa"
)

const wallMonotonic = uint64(1) << 63

// a fixed wall-clock second (2026-01-01 00:00:00 UTC counted from year 1885,
// the origin of the 33-bit wall seconds field)
const wallSecField = uint64(4449513600)

func (p *Path) nowMono() *Term {
	if p.concreteMode {
		p.nowCount++
		return BVI(64, int64(p.nowCount)*1000)
	}
	if p.clockFixed != nil {
		p.nowCount++
		return p.clockFixed
	}
	v := p.internalVar("now", SBV(64))
	lo := p.lastNow
	if lo == nil {
		lo = BVI(64, 1)
	}
	p.assume(BVSle(lo, v))
	p.assume(BVSlt(v, BVC(64, new(big.Int).Lsh(one, 61))))
	if p.nowMax != nil {
		p.assume(BVSle(v, p.nowMax))
	}
	p.lastNow = v
	p.nowCount++
	return v
}

func (p *Path) timeValue(mono *Term) Value {
	return Struct{BVU(64, wallMonotonic|wallSecField<<30), mono, (*Value)(nil)}
}

func (p *Path) timerChan(fr *frame) *ChanV {
	tt := p.P.namedType("time", "Time")
	c := &ChanV{cap: 1, elemT: tt, env: true}
	c.envGen = func(p *Path) Value { return p.timeValue(p.nowMono()) }
	return c
}

func init() {
	reg("time.Now", func(fr *frame, fn *ssa.Function, a []Value) Value {
		return fr.p.timeValue(fr.p.nowMono())
	})
	reg("time.Since", func(fr *frame, fn *ssa.Function, a []Value) Value {
		t := a[0].(Struct)
		return BVSub(fr.p.nowMono(), termOf(t[1]))
	})
	reg("time.Until", func(fr *frame, fn *ssa.Function, a []Value) Value {
		t := a[0].(Struct)
		return BVSub(termOf(t[1]), fr.p.nowMono())
	})
	reg("time.Sleep", func(fr *frame, fn *ssa.Function, a []Value) Value {
		fr.p.preemptPoint(fr.th)
		return nil
	})
	reg("time.After", func(fr *frame, fn *ssa.Function, a []Value) Value {
		return fr.p.timerChan(fr)
	})
	reg("time.Tick", func(fr *frame, fn *ssa.Function, a []Value) Value {
		return fr.p.timerChan(fr)
	})
	mkTimer := func(fr *frame, fn *ssa.Function, a []Value) Value {
		pt := fn.Signature.Results().At(0).Type().Underlying().(*types.Pointer)
		st := zero(pt.Elem()).(Struct)
		st[0] = fr.p.timerChan(fr)
		var cell Value = st
		return &cell
	}
	reg("time.NewTimer", mkTimer)
	reg("time.NewTicker", mkTimer)
	stop := func(fr *frame, fn *ssa.Function, a []Value) Value {
		st := structCell(a[0], "Timer.Stop")
		if c, ok := st[0].(*ChanV); ok && c != nil {
			c.env = false // a stopped timer never fires again
		} else if len(st) > 1 {
			st[1] = TTrue // AfterFunc timer: mark stopped
		}
		if fn.Signature.Results().Len() == 1 {
			return TTrue
		}
		return nil
	}
	reg("(*time.Timer).Stop", stop)
	reg("(*time.Ticker).Stop", stop)
	reg("(*time.Timer).Reset", func(fr *frame, fn *ssa.Function, a []Value) Value {
		st := structCell(a[0], "Timer.Reset")
		if c, ok := st[0].(*ChanV); ok && c != nil {
			c.env = true
		}
		return TTrue
	})
	reg("(*time.Ticker).Reset", func(fr *frame, fn *ssa.Function, a []Value) Value { return nil })
	// AfterFunc: the callback runs on its own goroutine at an arbitrary later
	// moment (the scheduler decides), or never if the path ends first.
	reg("time.AfterFunc", func(fr *frame, fn *ssa.Function, a []Value) Value {
		pt := fn.Signature.Results().At(0).Type().Underlying().(*types.Pointer)
		st := zero(pt.Elem()).(Struct)
		var cell Value = st
		cb := a[1]
		p := fr.p
		th := p.spawn(fr, &timerThunk{cb: cb, cell: &cell}, nil)
		if th != nil {
			th.timer = true
		}
		return &cell
	})
}

// timerThunk is the body of an AfterFunc goroutine: runs cb unless stopped.
type timerThunk struct {
	cb   Value
	cell *Value
}
