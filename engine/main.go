package main

import (
	"encoding/json"
	"flag"
	"fmt"
	"os"
	"os/exec"
	"path/filepath"
	"runtime"
	"runtime/pprof"
	"sort"
	"strconv"
	"strings"
	"time"
)

type KnownFinding struct {
	Property string `json:"property"`
	Status   string `json:"status"` // known | fixed
	Entry    string `json:"entry"`
	Match    string `json:"match"` // substring of the violation message
	What     string `json:"what"`
	Commit   string `json:"commit,omitempty"`
}

func main() {
	cfgPath := flag.String("cfg", "", "harness cfg.json")
	tier := flag.String("tier", "quick", "quick|thorough")
	repo := flag.String("repo", "/repo", "repository root")
	evidence := flag.String("evidence", "", "evidence file to write")
	workers := flag.Int("workers", runtime.NumCPU(), "parallel workers")
	only := flag.String("entry", "", "run only this entry")
	replayFile := flag.String("replay", "", "replay a recorded counterexample file")
	outDir := flag.String("out", "/verif/replays", "where replay files go")
	known := flag.String("known", "/verif/known_findings.json", "known findings file")
	verbose := flag.Bool("v", false, "verbose")
	flag.Parse()
	if pf := os.Getenv("VERIF_PROF"); pf != "" {
		f, _ := os.Create(pf)
		pprof.StartCPUProfile(f)
		defer pprof.StopCPUProfile()
	}
	if v := os.Getenv("VERIF_TIER"); v != "" && *tier == "quick" {
		if v == "thorough" {
			*tier = v
		}
	}
	seed := int64(1)
	if s := os.Getenv("VERIF_SEED"); s != "" {
		if n, err := strconv.ParseInt(s, 10, 64); err == nil {
			seed = n
		}
	}
	start := time.Now()
	b, err := os.ReadFile(*cfgPath)
	if err != nil {
		fmt.Fprintln(os.Stderr, err)
		os.Exit(2)
	}
	var cfg Config
	if err := json.Unmarshal(b, &cfg); err != nil {
		fmt.Fprintln(os.Stderr, "cfg:", err)
		os.Exit(2)
	}
	cfgDir := filepath.Dir(*cfgPath)
	if *replayFile != "" {
		os.Exit(doReplayFile(*replayFile, *repo, cfgDir, &cfg))
	}
	var kf []KnownFinding
	if kb, err := os.ReadFile(*known); err == nil {
		json.Unmarshal(kb, &kf)
	}

	ev := newEvidence(cfg.ID, *tier, seed)
	exit := 0
	var inconclusive []string
	nviol := 0
	os.MkdirAll(*outDir, 0o755)
	for ui := range cfg.Units {
		u := &cfg.Units[ui]
		applyDefaults(u, *tier)
		t0 := time.Now()
		P, err := loadProg(*repo, cfgDir, u, *tier)
		if err != nil {
			fmt.Fprintf(os.Stderr, "load %s: %v\n", u.Pkg, err)
			inconclusive = append(inconclusive, "load failed for "+u.Pkg+": "+err.Error())
			continue
		}
		ev.LoadS += time.Since(t0).Seconds()
		for _, en := range u.Entries {
			if *only != "" && en != *only {
				continue
			}
			entry, err := lookupEntry(P, en)
			if err != nil {
				inconclusive = append(inconclusive, err.Error())
				continue
			}
			t1 := time.Now()
			st := P.explore(entry, *workers)
			dur := time.Since(t1)
			ev.add(u, en, st, dur)
			if *verbose {
				fmt.Fprintf(os.Stderr, "[%s] paths=%d outcomes=%v asserts=%d(+%d trivial) queries=%d solver=%.1fs wall=%.1fs maxdec=%d\n", en, st.Paths, st.ByOutcome, st.Asserts, st.AssertsTrivial, st.Queries, st.SolverTime.Seconds(), dur.Seconds(), st.MaxDecisions)
				fmt.Fprintf(os.Stderr, "  new decisions by kind (feasible-of-alternatives): %v merges=%d\n", st.DecLabels, st.Merges)
				for w := range st.Warnings {
					fmt.Fprintln(os.Stderr, "  warn:", w)
				}
			}
			for _, ic := range st.Inconclusive {
				inconclusive = append(inconclusive, en+": "+ic)
			}
			// vacuity
			for _, tag := range u.MustReach[en] {
				if !st.Reached[tag] {
					inconclusive = append(inconclusive, en+": vacuity witness not reached: "+tag)
				}
			}
			if st.Asserts+st.AssertsTrivial == 0 && len(st.Violations) == 0 && !u.PanicFreedom {
				inconclusive = append(inconclusive, en+": no assertion was reached on any path (vacuous)")
			}
			// translator validation
			if !u.NoValidate && len(st.Violations) == 0 {
				n := u.Validate
				if n == 0 {
					n = 6
				}
				if *tier == "thorough" {
					n *= 4
				}
				ok, bad, msgs := P.validateTranslator(entry, n, uint64(seed), st.SampleVecs)
				ev.Validated += ok
				for _, m := range msgs {
					fmt.Fprintln(os.Stderr, "translator-validation mismatch:", m)
				}
				if bad > 0 {
					inconclusive = append(inconclusive, fmt.Sprintf("%s: translator validation: %d of %d vectors disagree between engine and native run: %s", en, bad, ok+bad, strings.Join(msgs, "; ")))
				}
			}
			// violations: dedupe by (kind,msg), replay, match known findings
			seen := map[string]bool{}
			for _, v := range st.Violations {
				key := v.Kind + "|" + v.Msg
				if seen[key] {
					continue
				}
				seen[key] = true
				rep := P.replayViolation(en, v)
				rf := filepath.Join(*outDir, fmt.Sprintf("%s-%s-%d.json", cfg.ID, en, len(seen)))
				rec := map[string]interface{}{
					"property": cfg.ID, "unit_pkg": u.Pkg, "entry": en, "kind": v.Kind, "message": v.Msg,
					"values": v.Values, "decisions": v.Prefix, "native_replay": rep.Status, "native_output": rep.Output,
					"stack": v.Stack, "solver_unknown": v.Unknown,
				}
				jb, _ := json.MarshalIndent(rec, "", " ")
				os.WriteFile(rf, jb, 0o644)
				matched := false
				for _, k := range kf {
					if k.Property == cfg.ID && k.Status == "known" && (k.Entry == "" || k.Entry == en) && strings.Contains(v.Msg, k.Match) {
						fmt.Printf("KNOWN-FINDING: property=%s %s\n", cfg.ID, k.What)
						matched = true
						ev.Known++
						break
					}
				}
				if matched {
					continue
				}
				switch rep.Status {
				case "reproduced", "engine-confirmed":
					fmt.Printf("VIOLATION property=%s replay=%s\n", cfg.ID, rf)
					fmt.Printf("  entry=%s kind=%s msg=%q replay=%s\n", en, v.Kind, v.Msg, rep.Status)
					nviol++
					exit = 1
				default:
					fmt.Printf("UNCONFIRMED property=%s entry=%s kind=%s msg=%q replay=%s file=%s\n", cfg.ID, en, v.Kind, v.Msg, rep.Status, rf)
					inconclusive = append(inconclusive, en+": counterexample not reproduced natively ("+rep.Status+"): "+v.Msg)
				}
			}
		}
		P.cleanupNative()
	}
	ev.WallS = time.Since(start).Seconds()
	ev.Violations = nviol
	ev.Inconclusive = inconclusive
	if *evidence != "" {
		ev.write(*evidence)
	}
	if exit == 0 && len(inconclusive) > 0 {
		sort.Strings(inconclusive)
		for i, ic := range inconclusive {
			if i < 15 {
				fmt.Printf("INCONCLUSIVE property=%s reason=%s\n", cfg.ID, ic)
			}
		}
		exit = 2
	}
	if exit == 0 {
		fmt.Printf("OK property=%s tier=%s paths=%d assertions_unsat=%d assertions_constant=%d queries=%d wall=%.1fs\n", cfg.ID, *tier, ev.Paths, ev.Asserts, ev.Trivial, ev.Queries, ev.WallS)
	}
	pprof.StopCPUProfile()
	os.Exit(exit)
}

func goEnv() []string {
	return append(os.Environ(), "GOFLAGS=-mod=mod", "GOPROXY=off", "GOSUMDB=off", "GOTOOLCHAIN=local")
}

func runCmd(dir string, timeout time.Duration, name string, args ...string) (string, error) {
	cmd := exec.Command("timeout", append([]string{fmt.Sprint(int(timeout.Seconds())), name}, args...)...)
	cmd.Dir = dir
	cmd.Env = goEnv()
	out, err := cmd.CombinedOutput()
	return string(out), err
}
