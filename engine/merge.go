package main

// If-conversion: a symbolic branch whose arms form a small acyclic region of
// side-effect-free instructions ending at the branch's immediate
// post-dominator is evaluated speculatively along all arms and joined with
// ite terms at the phis, instead of forking the path. Anything that is not
// provably harmless (calls, stores, channel ops, possible panics, nested
// symbolic decisions the engine would fork on) aborts the attempt and the
// branch forks as usual, so merging never changes what is explored — only
// how many paths it takes.

import (
	"sync"

	"golang.org/x/tools/go/ssa"
)

type specAbort struct{ why string }

type pdomInfo struct {
	ipdom []int // immediate post-dominator block index, -1 = exit
}

var pdomCache sync.Map

func postDominators(fn *ssa.Function) *pdomInfo {
	if v, ok := pdomCache.Load(fn); ok {
		return v.(*pdomInfo)
	}
	n := len(fn.Blocks)
	exit := n // virtual exit
	// pdom sets as bitsets over n+1 nodes
	words := (n + 1 + 63) / 64
	full := make([]uint64, words)
	for i := 0; i <= n; i++ {
		full[i/64] |= 1 << (uint(i) % 64)
	}
	sets := make([][]uint64, n+1)
	for i := 0; i < n; i++ {
		sets[i] = append([]uint64{}, full...)
	}
	sets[exit] = make([]uint64, words)
	sets[exit][exit/64] |= 1 << (uint(exit) % 64)
	succs := func(b *ssa.BasicBlock) []int {
		if len(b.Succs) == 0 {
			return []int{exit}
		}
		r := make([]int, len(b.Succs))
		for i, s := range b.Succs {
			r[i] = s.Index
		}
		return r
	}
	changed := true
	for changed {
		changed = false
		for i := n - 1; i >= 0; i-- {
			b := fn.Blocks[i]
			nw := append([]uint64{}, full...)
			for _, s := range succs(b) {
				for w := range nw {
					nw[w] &= sets[s][w]
				}
			}
			nw[i/64] |= 1 << (uint(i) % 64)
			for w := range nw {
				if nw[w] != sets[i][w] {
					changed = true
				}
			}
			sets[i] = nw
		}
	}
	has := func(s []uint64, k int) bool { return s[k/64]&(1<<(uint(k)%64)) != 0 }
	count := func(s []uint64) int {
		c := 0
		for _, w := range s {
			for ; w != 0; w &= w - 1 {
				c++
			}
		}
		return c
	}
	info := &pdomInfo{ipdom: make([]int, n)}
	for i := 0; i < n; i++ {
		// immediate post-dominator: the strict post-dominator with the largest pdom set
		best, bestCount := -1, -1
		for k := 0; k <= n; k++ {
			if k == i || !has(sets[i], k) {
				continue
			}
			c := count(sets[k])
			if c > bestCount {
				best, bestCount = k, c
			}
		}
		if best == exit {
			best = -1
		}
		info.ipdom[i] = best
	}
	pdomCache.Store(fn, info)
	return info
}

const (
	mergeMaxBlocks = 16
	mergeMaxInstrs = 120
)

// pureInstr reports whether the instruction may be executed speculatively.
func pureInstr(in ssa.Instruction) bool {
	switch x := in.(type) {
	case *ssa.DebugRef, *ssa.BinOp, *ssa.Convert, *ssa.ChangeType, *ssa.ChangeInterface, *ssa.MakeInterface,
		*ssa.Field, *ssa.FieldAddr, *ssa.IndexAddr, *ssa.Index, *ssa.Extract, *ssa.Phi, *ssa.Slice, *ssa.MultiConvert:
		return true
	case *ssa.UnOp:
		return x.Op.String() != "<-"
	case *ssa.Call:
		if b, ok := x.Call.Value.(*ssa.Builtin); ok {
			switch b.Name() {
			case "len", "cap", "min", "max":
				return true
			}
		}
		return false
	}
	return false
}

// tryMerge attempts if-conversion of the branch ending fr.block with symbolic
// condition c. On success the frame is positioned at the join block with its
// phis already set.
func (fr *frame) tryMerge(in *ssa.If, c *Term) (ok bool) {
	p := fr.p
	if p.noMerge || p.concreteMode {
		return false
	}
	B := fr.block
	pd := postDominators(fr.fn)
	j := pd.ipdom[B.Index]
	if j < 0 {
		return false
	}
	J := fr.fn.Blocks[j]
	// collect the region: blocks reachable from B's successors before J
	inRegion := map[*ssa.BasicBlock]bool{}
	var order []*ssa.BasicBlock
	var dfs func(b *ssa.BasicBlock) bool
	state := map[*ssa.BasicBlock]int{} // 1 = on stack, 2 = done
	nInstr := 0
	dfs = func(b *ssa.BasicBlock) bool {
		if b == J {
			return true
		}
		if b == B {
			return false // loop back to the branch
		}
		switch state[b] {
		case 1:
			return false // cycle
		case 2:
			return true
		}
		state[b] = 1
		if len(inRegion) >= mergeMaxBlocks {
			return false
		}
		inRegion[b] = true
		nInstr += len(b.Instrs)
		if nInstr > mergeMaxInstrs {
			return false
		}
		for _, in := range b.Instrs[:len(b.Instrs)-1] {
			if !pureInstr(in) {
				return false
			}
		}
		switch b.Instrs[len(b.Instrs)-1].(type) {
		case *ssa.Jump, *ssa.If:
		default:
			return false
		}
		for _, s := range b.Succs {
			if !dfs(s) {
				return false
			}
		}
		state[b] = 2
		order = append(order, b) // post-order
		return true
	}
	for _, s := range B.Succs {
		if !dfs(s) {
			return false
		}
	}
	// every predecessor of a region block must be B or in the region
	for b := range inRegion {
		for _, pr := range b.Preds {
			if pr != B && !inRegion[pr] {
				return false
			}
		}
	}
	// speculative evaluation
	type edge struct {
		from *ssa.BasicBlock
		g    *Term
	}
	incoming := map[*ssa.BasicBlock][]edge{}
	addEdge := func(from, to *ssa.BasicBlock, g *Term) {
		incoming[to] = append(incoming[to], edge{from, g})
	}
	addEdge(B, B.Succs[0], c)
	addEdge(B, B.Succs[1], Not(c))
	savedEnv := append([]Value(nil), fr.env...)
	savedSteps := p.steps
	p.spec++
	defer func() {
		p.spec--
		if r := recover(); r != nil {
			switch r.(type) {
			case specAbort, *goPanic, unsupportedErr:
				copy(fr.env, savedEnv)
				p.steps = savedSteps
				ok = false
				return
			}
			panic(r)
		}
	}()
	phiValue := func(b *ssa.BasicBlock, phi *ssa.Phi, edges []edge) Value {
		var res Value
		for k := len(edges) - 1; k >= 0; k-- {
			e := edges[k]
			idx := -1
			for i, pr := range b.Preds {
				if pr == e.from {
					idx = i
					break
				}
			}
			if idx < 0 {
				panic(specAbort{"phi edge"})
			}
			v := fr.get(phi.Edges[idx])
			if res == nil {
				res = v
				if res == nil {
					res = nilMarker{}
				}
				continue
			}
			res = iteValue(e.g, v, res)
		}
		if _, isNil := res.(nilMarker); isNil {
			return nil
		}
		return res
	}
	setPhis := func(b *ssa.BasicBlock, edges []edge) {
		var vals []Value
		var phis []*ssa.Phi
		for _, in := range b.Instrs {
			phi, isPhi := in.(*ssa.Phi)
			if !isPhi {
				break
			}
			phis = append(phis, phi)
			vals = append(vals, phiValue(b, phi, edges))
		}
		for i, phi := range phis {
			fr.set(phi, vals[i])
		}
	}
	// reverse post-order = topological order
	for i := len(order) - 1; i >= 0; i-- {
		b := order[i]
		edges := incoming[b]
		if len(edges) == 0 {
			continue // unreachable within the region
		}
		g := TFalse
		for _, e := range edges {
			g = Or(g, e.g)
		}
		setPhis(b, edges)
		for _, in := range b.Instrs[:len(b.Instrs)-1] {
			if _, isPhi := in.(*ssa.Phi); isPhi {
				continue
			}
			p.steps++
			fr.visit(in)
		}
		switch t := b.Instrs[len(b.Instrs)-1].(type) {
		case *ssa.Jump:
			addEdge(b, b.Succs[0], g)
		case *ssa.If:
			c2 := termOf(fr.get(t.Cond))
			addEdge(b, b.Succs[0], And(g, c2))
			addEdge(b, b.Succs[1], And(g, Not(c2)))
		}
	}
	edges := incoming[J]
	if len(edges) == 0 {
		panic(specAbort{"join unreachable"})
	}
	setPhis(J, edges)
	fr.prev, fr.block = B, J
	fr.phisDone = true
	p.merges++
	return true
}

type nilMarker struct{}

// iteValue builds ite(c, a, b) for scalar values; identical values need no ite.
func iteValue(c *Term, a, b Value) Value {
	if _, isNil := b.(nilMarker); isNil {
		b = nil
	}
	if c.IsTrue() {
		return a
	}
	if c.IsFalse() {
		return b
	}
	switch x := a.(type) {
	case *Term:
		y, ok := b.(*Term)
		if !ok {
			panic(specAbort{"ite kinds"})
		}
		if x == y {
			return x
		}
		if x.S != y.S {
			panic(specAbort{"ite sorts"})
		}
		return Ite(c, x, y)
	case StrV:
		y, ok := b.(StrV)
		if !ok || x.Len() != y.Len() {
			panic(specAbort{"ite strings"})
		}
		if x.IsConc() && y.IsConc() && x.S == y.S {
			return x
		}
		bs := make([]*Term, x.Len())
		for i := range bs {
			bs[i] = Ite(c, x.Byte(i), y.Byte(i))
		}
		return mkStr(bs)
	case *Value:
		if y, ok := b.(*Value); ok && x == y {
			return x
		}
	case nil:
		if b == nil {
			return nil
		}
	case Tuple:
		y, ok := b.(Tuple)
		if ok && len(x) == len(y) {
			r := make(Tuple, len(x))
			for i := range x {
				r[i] = iteValue(c, x[i], y[i])
			}
			return r
		}
	case Struct:
		y, ok := b.(Struct)
		if ok && len(x) == len(y) {
			r := make(Struct, len(x))
			for i := range x {
				r[i] = iteValue(c, x[i], y[i])
			}
			return r
		}
	case Array:
		y, ok := b.(Array)
		if ok && len(x) == len(y) {
			r := make(Array, len(x))
			for i := range x {
				r[i] = iteValue(c, x[i], y[i])
			}
			return r
		}
	case Iface:
		y, ok := b.(Iface)
		if ok && x.T == nil && y.T == nil {
			return x
		}
		if ok && x.T != nil && y.T != nil && typeKey(x.T) == typeKey(y.T) {
			return Iface{T: x.T, V: iteValue(c, x.V, y.V)}
		}
	case BigVal:
		if y, ok := b.(BigVal); ok {
			return BigVal{Ite(c, x.T, y.T)}
		}
	case *MapV:
		if y, ok := b.(*MapV); ok && x == y {
			return x
		}
	case *ChanV:
		if y, ok := b.(*ChanV); ok && x == y {
			return x
		}
	case FloatV:
		if y, ok := b.(FloatV); ok && x == y {
			return x
		}
	}
	panic(specAbort{"ite of unmergeable values"})
}
