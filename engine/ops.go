package main

import (
	"fmt"
	"math/big"
	"go/constant"
	"go/token"
	"go/types"
	"math"
	"unicode/utf8"

	"golang.org/x/tools/go/ssa"
)

func constStringVal(c *ssa.Const) string {
	if c.Value.Kind() == constant.String {
		return constant.StringVal(c.Value)
	}
	// integer constant converted to string
	if c.Value.Kind() == constant.Int {
		v, _ := constant.Int64Val(c.Value)
		return string(rune(v))
	}
	return c.Value.String()
}

func intInfo(t types.Type) (w int, signed bool, ok bool) {
	b, isB := t.Underlying().(*types.Basic)
	if !isB {
		return 0, false, false
	}
	w, signed = basicWidth(b)
	return w, signed, w > 0
}

func (fr *frame) unop(in *ssa.UnOp) Value {
	x := fr.get(in.X)
	switch in.Op {
	case token.MUL: // load
		return fr.load(x)
	case token.NOT:
		return Not(termOf(x))
	case token.SUB:
		switch v := x.(type) {
		case *Term:
			return BVNeg(v)
		case FloatV:
			return -v
		}
	case token.XOR:
		return BVNot(termOf(x))
	case token.ARROW:
		v, ok := fr.p.chanRecv(fr, x)
		if in.CommaOk {
			return Tuple{v, BoolC(ok)}
		}
		return v
	}
	panic(unsupported(fmt.Sprintf("unop %s on %T", in.Op, x)))
}

func (fr *frame) binop(op token.Token, xt, yt types.Type, x, y Value) Value {
	switch op {
	case token.EQL:
		return equals(x, y)
	case token.NEQ:
		return Not(equals(x, y))
	}
	switch a := x.(type) {
	case *Term:
		b := termOf(y)
		if a.S.K == KBool {
			switch op {
			case token.AND, token.LAND:
				return And(a, b)
			case token.OR, token.LOR:
				return Or(a, b)
			}
			panic(unsupported("bool binop " + op.String()))
		}
		_, signed, _ := intInfo(xt)
		switch op {
		case token.SHL, token.SHR:
			// normalise shift count to the width of a
			w := a.S.W
			cnt := b
			var tooBig *Term = TFalse
			if cnt.S.W > w {
				tooBig = Not(BVUlt(cnt, BVU(cnt.S.W, uint64(w))))
				cnt = Extract(w-1, 0, cnt)
			} else if cnt.S.W < w {
				cnt = ZExt(cnt, w)
			}
			var r *Term
			if op == token.SHL {
				r = Ite(tooBig, BVU(w, 0), BVShl(a, cnt))
			} else if signed {
				r = Ite(tooBig, BVAshr(a, BVU(w, uint64(w-1))), BVAshr(a, cnt))
			} else {
				r = Ite(tooBig, BVU(w, 0), BVLshr(a, cnt))
			}
			return r
		}
		if a.S != b.S {
			panic(unsupported(fmt.Sprintf("binop %s sorts %v %v", op, a.S, b.S)))
		}
		switch op {
		case token.ADD:
			return BVAdd(a, b)
		case token.SUB:
			return BVSub(a, b)
		case token.MUL:
			return BVMul(a, b)
		case token.QUO, token.REM:
			isZero := Eq(b, BVU(b.S.W, 0))
			if fr.p.branch(isZero) {
				panic(&goPanic{kind: "div0", msg: "integer divide by zero"})
			}
			if !signed && b.IsConst() && !a.IsConst() && a.S.W >= 24 && !fr.p.concreteMode && !fr.p.noDivAxiom {
				q, r := fr.p.divByConst(a, b)
				if op == token.QUO {
					return q
				}
				return r
			}
			if op == token.QUO {
				if signed {
					return BVSDiv(a, b)
				}
				return BVUDiv(a, b)
			}
			if signed {
				return BVSRem(a, b)
			}
			return BVURem(a, b)
		case token.AND:
			return BVAnd(a, b)
		case token.OR:
			return BVOr(a, b)
		case token.XOR:
			return BVXor(a, b)
		case token.AND_NOT:
			return BVAnd(a, BVNot(b))
		case token.LSS:
			if signed {
				return BVSlt(a, b)
			}
			return BVUlt(a, b)
		case token.LEQ:
			if signed {
				return BVSle(a, b)
			}
			return BVUle(a, b)
		case token.GTR:
			if signed {
				return BVSlt(b, a)
			}
			return BVUlt(b, a)
		case token.GEQ:
			if signed {
				return BVSle(b, a)
			}
			return BVUle(b, a)
		}
	case StrV:
		b := y.(StrV)
		switch op {
		case token.ADD:
			return strConcat(a, b)
		case token.LSS:
			return strLt(a, b)
		case token.GTR:
			return strLt(b, a)
		case token.LEQ:
			return Not(strLt(b, a))
		case token.GEQ:
			return Not(strLt(a, b))
		}
	case FloatSym:
		b, ok := y.(FloatV)
		if !ok {
			break
		}
		thr := float64(b) * (1 << 53)
		fl, ce := math.Floor(thr), math.Ceil(thr)
		if fl < 0 {
			fl, ce = -1, 0
		}
		if ce > 1<<53 {
			fl, ce = 1<<53, 1<<53
		}
		num := ZExt(a.Num, 64)
		switch op {
		case token.LSS: // num < thr  <=>  num < ceil(thr)
			return BVSlt(num, BVI(64, int64(ce)))
		case token.LEQ:
			return BVSle(num, BVI(64, int64(fl)))
		case token.GTR:
			return BVSlt(BVI(64, int64(fl)), num)
		case token.GEQ:
			return BVSle(BVI(64, int64(ce)), num)
		}
	case FloatV:
		if bs, ok := y.(FloatSym); ok {
			// c op sym  ==  sym op' c
			var rev token.Token
			switch op {
			case token.LSS:
				rev = token.GTR
			case token.LEQ:
				rev = token.GEQ
			case token.GTR:
				rev = token.LSS
			case token.GEQ:
				rev = token.LEQ
			default:
				panic(unsupported("float op on symbolic float"))
			}
			return fr.binop(rev, yt, xt, bs, a)
		}
		b := y.(FloatV)
		switch op {
		case token.ADD:
			return a + b
		case token.SUB:
			return a - b
		case token.MUL:
			return a * b
		case token.QUO:
			return a / b
		case token.LSS:
			return BoolC(a < b)
		case token.LEQ:
			return BoolC(a <= b)
		case token.GTR:
			return BoolC(a > b)
		case token.GEQ:
			return BoolC(a >= b)
		}
	}
	panic(unsupported(fmt.Sprintf("binop %s on %T,%T", op, x, y)))
}

func (fr *frame) conv(dst, src types.Type, x Value) Value {
	du := dst.Underlying()
	su := src.Underlying()
	switch d := du.(type) {
	case *types.Basic:
		if dw, _, ok := intInfo(dst); ok {
			switch v := x.(type) {
			case *Term:
				_, ssigned, _ := intInfo(src)
				if dw <= v.S.W {
					return Extract(dw-1, 0, v)
				}
				if ssigned {
					return SExt(v, dw)
				}
				return ZExt(v, dw)
			case FloatV:
				f := float64(v)
				if _, ds, _ := intInfo(dst); ds {
					return BVI(dw, int64(f))
				}
				return BVU(dw, uint64(f))
			}
		}
		if d.Info()&types.IsFloat != 0 {
			switch v := x.(type) {
			case FloatV:
				if d.Kind() == types.Float32 {
					return FloatV(float32(v))
				}
				return v
			case *Term:
				if !v.IsConst() {
					panic(unsupported("symbolic int to float conversion"))
				}
				_, ssigned, _ := intInfo(src)
				if ssigned {
					return FloatV(float64(v.Int64()))
				}
				return FloatV(float64(v.Uint64()))
			}
		}
		if d.Info()&types.IsString != 0 {
			switch v := x.(type) {
			case StrV:
				return v
			case SliceV:
				// []byte or []rune -> string
				if sl, ok := su.(*types.Slice); ok {
					if eb, ok := sl.Elem().Underlying().(*types.Basic); ok && (eb.Kind() == types.Int32) {
						var rs []rune
						for _, e := range v {
							c, ok := concInt(e)
							if !ok {
								panic(unsupported("symbolic rune slice to string"))
							}
							rs = append(rs, rune(c))
						}
						return StrV{S: string(rs)}
					}
				}
				bs := make([]*Term, len(v))
				for i, e := range v {
					bs[i] = termOf(e)
				}
				return mkStr(bs)
			case *Term:
				if !v.IsConst() {
					panic(unsupported("symbolic int to string"))
				}
				return StrV{S: string(rune(v.Int64()))}
			}
		}
		if d.Kind() == types.UnsafePointer {
			switch v := x.(type) {
			case UnsafePtr:
				return v
			case *Value:
				if v == nil {
					return UnsafePtr{}
				}
				return UnsafePtr{P: v}
			case *Term:
				if v.IsConst() && v.C.Sign() == 0 {
					return UnsafePtr{}
				}
			}
		}
		if d.Info()&types.IsBoolean != 0 {
			return x
		}
	case *types.Slice:
		if s, ok := x.(StrV); ok {
			eb := d.Elem().Underlying().(*types.Basic)
			if eb.Kind() == types.Int32 { // []rune
				if !s.IsConc() {
					panic(unsupported("symbolic string to []rune"))
				}
				r := SliceV{}
				for _, c := range s.S {
					r = append(r, BVI(32, int64(c)))
				}
				return r
			}
			bs := s.Bytes()
			r := make(SliceV, len(bs))
			for i, b := range bs {
				r[i] = b
			}
			return r
		}
		return x
	case *types.Pointer:
		if up, ok := x.(UnsafePtr); ok {
			if up.P == nil {
				return (*Value)(nil)
			}
			return up.P
		}
		return x
	}
	if types.Identical(du, su) {
		return x
	}
	panic(unsupported(fmt.Sprintf("conv %s -> %s (%T)", src, dst, x)))
}

// ---- maps ----

func (p *Path) mapFind(m *MapV, k Value) *MapEntry {
	if m == nil {
		return nil
	}
	for _, e := range m.Entries {
		c := equals(e.K, k)
		if c.IsConst() {
			if c.IsTrue() {
				return e
			}
			continue
		}
		if p.branch(c) {
			return e
		}
	}
	return nil
}

func (p *Path) mapInsert(m *MapV, k, v Value) {
	if e := p.mapFind(m, k); e != nil {
		e.V = v
		return
	}
	m.Entries = append(m.Entries, &MapEntry{K: copyVal(k), V: v})
}

func (p *Path) mapDelete(m *MapV, k Value) {
	e := p.mapFind(m, k)
	if e == nil {
		return
	}
	for i, x := range m.Entries {
		if x == e {
			m.Entries = append(append([]*MapEntry{}, m.Entries[:i]...), m.Entries[i+1:]...)
			return
		}
	}
}

func (fr *frame) lookup(in *ssa.Lookup) Value {
	x := fr.get(in.X)
	switch c := x.(type) {
	case StrV:
		return fr.index(c, fr.idxTerm(in.Index))
	case *MapV:
		var vt types.Type
		if mt, ok := in.X.Type().Underlying().(*types.Map); ok {
			vt = mt.Elem()
		}
		if c != nil {
			fr.p.raceAccess(fr, c, false, "a map")
		}
		e := fr.p.mapFind(c, fr.get(in.Index))
		var v Value
		if e != nil {
			v = copyVal(e.V)
		} else {
			v = zero(vt)
		}
		if in.CommaOk {
			return Tuple{v, BoolC(e != nil)}
		}
		return v
	}
	panic(unsupported(fmt.Sprintf("lookup on %T", x)))
}

// ---- range ----

type iterator interface {
	next(fr *frame) Value
}

type mapIter struct {
	m       *MapV
	pending []*MapEntry // snapshot of entries not yet visited
	policy  string
}

func (it *mapIter) next(fr *frame) Value {
	// skip entries deleted during iteration
	for len(it.pending) > 0 {
		n := len(it.pending)
		choice := 0
		switch it.policy {
		case "reverse":
			choice = n - 1
		case "all":
			if n > 1 {
				alts := make([]*Term, n)
				choice = fr.p.choose(alts, "maporder")
			}
		}
		e := it.pending[choice]
		it.pending = append(append([]*MapEntry{}, it.pending[:choice]...), it.pending[choice+1:]...)
		live := false
		for _, x := range it.m.Entries {
			if x == e {
				live = true
				break
			}
		}
		if live {
			return Tuple{TTrue, copyVal(e.K), copyVal(e.V)}
		}
	}
	return Tuple{TFalse, nil, nil}
}

type strIter struct {
	s   string
	pos int
}

func (it *strIter) next(fr *frame) Value {
	if it.pos >= len(it.s) {
		return Tuple{TFalse, BVI(64, 0), BVI(32, 0)}
	}
	r, sz := utf8.DecodeRuneInString(it.s[it.pos:])
	i := it.pos
	it.pos += sz
	return Tuple{TTrue, BVI(64, int64(i)), BVI(32, int64(r))}
}

func (p *Path) rangeIter(x Value, t types.Type) Value {
	switch c := x.(type) {
	case *MapV:
		it := &mapIter{m: c, policy: p.mapPolicy()}
		if c != nil {
			it.pending = append(it.pending, c.Entries...)
		}
		return it
	case StrV:
		if !c.IsConc() {
			// treat as bytes when all < 0x80 cannot be known; unsupported
			panic(unsupported("range over symbolic string"))
		}
		return &strIter{s: c.S}
	}
	panic(unsupported(fmt.Sprintf("range over %T", x)))
}

var _ = math.MaxInt64

// divByConst axiomatises unsigned x / c and x % c for a non-zero constant c
// with a fresh q: q <= max/c (so q*c cannot wrap), q*c <= x, x - q*c < c;
// the remainder is the term x - q*c. In the naturals q*c <= x < q*c + c, so q
// is uniquely floor(x/c): adding the definition to the path condition never
// restricts the inputs; it spares the solver a divider circuit (constant
// multiplication is shift-and-add).
func (p *Path) divByConst(x, c *Term) (*Term, *Term) {
	key := fmt.Sprintf("div:%d:%s", x.id, c.C.String())
	if v, ok := p.store[key]; ok {
		qr := v.([2]*Term)
		return qr[0], qr[1]
	}
	w := x.S.W
	q := p.freshVar("q", SBV(w))
	maxQ := BVC(w, new(big.Int).Quo(mask(w), c.C))
	qc := BVMul(q, c)
	r := BVSub(x, qc)
	p.assume(BVUle(q, maxQ))
	p.assume(BVUle(qc, x))
	p.assume(BVUlt(r, c))
	p.store[key] = [2]*Term{q, r}
	return q, r
}
