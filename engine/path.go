package main

// Per-path state: decisions (re-execution based forking), path condition,
// globals, nondeterministic inputs, outcomes.

import (
	"fmt"
	"os"
	"time"
	"go/types"
	"math/big"
	"strings"
	"sync"

	"golang.org/x/tools/go/ssa"
)

type Outcome struct {
	Kind string // ok | pruned | unsupported | unwind | budget | deadlock | infeasible
	Msg  string
}

type NondetRec struct {
	Kind     string // u8,u16,u32,u64,i64,int,bool,range,big
	Var      *Term  // nil when concrete
	Conc     int64
	Tag      string
	Internal bool
}

type Violation struct {
	Kind    string // assert | panic | deadlock
	Msg     string
	Site    string
	Values  []ReplayVal // nondet values in call order
	Prefix  []int
	Unknown bool // solver said unknown rather than sat
	Stack   string
}

type ReplayVal struct {
	Kind string `json:"kind"`
	Val  string `json:"val"` // decimal
	Tag  string `json:"tag,omitempty"`
	Internal bool `json:"internal,omitempty"`
}

type Path struct {
	P      *Prog
	S      *Solver
	prefix []int
	pos    int
	newAlts [][]int
	pc     []*Term

	globals map[*ssa.Global]*Value
	inited  map[*ssa.Package]bool

	threads  []*Thread
	cur      *Thread
	preempts int
	dead     bool
	finOnce  sync.Once
	finished chan struct{}
	wg       sync.WaitGroup

	nondets    []NondetRec
	reached    map[string]bool
	steps      int
	outcome    *Outcome
	violations []*Violation
	warnings   map[string]bool
	fnsSeen    map[string]bool
	asserts    int // assertion queries discharged (unsat) on this path
	assertsTrivial int
	inconcl    []string
	lastNow    *Term
	nowMax     *Term
	clockFixed *Term
	nowCount   int
	ufApps     map[string][]ufApp // for injectivity constraints
	envFires   map[*ChanV]int
	fresh      int
	concreteVals []ReplayVal // concrete replay mode: values to feed nondets
	concreteMode bool
	observations []string
	store      map[string]interface{}
	mapOrder   string
	wantSample bool
	sampleVals []ReplayVal
	concSeed   uint64
	concPos    int
	pinned     []ReplayVal
	spec       int // >0: speculative evaluation (if-conversion); decisions abort it
	noMerge    bool
	noDivAxiom bool
	merges     int
	decLabels  map[string]int
	race       *raceState
	protoCalls int
	envExhausted bool
	protoProfile struct{ bytesLen, repLen, strLen int }
}

type ufApp struct {
	args []*Term
	res  *Term
	resv []*Term
}

func (p *Path) warn(msg string) {
	if strings.HasPrefix(msg, "init of ") {
		// partial initialisation of standard-library packages is expected
		// (runtime hooks, reflection); only report third-party/repo packages
		rest := msg[len("init of "):]
		first := rest
		if i := strings.IndexAny(rest, "/ :"); i >= 0 {
			first = rest[:i]
		}
		if !strings.Contains(first, ".") {
			return
		}
	}
	if p.warnings == nil {
		p.warnings = map[string]bool{}
	}
	p.warnings[msg] = true
}

func (p *Path) noteFn(fi *fnInfo) {
	if fi.inRepo {
		p.fnsSeen[fi.name] = true
	}
}

// finish ends the path from the running thread. Does not return.
func (p *Path) finish(o *Outcome) {
	p.finOnce.Do(func() {
		p.outcome = o
		p.dead = true
		close(p.finished)
	})
	panic(abortSig{})
}

func (p *Path) assume(c *Term) {
	if c == nil || c.IsTrue() {
		return
	}
	p.pc = append(p.pc, c)
	p.S.Assert(c)
}

func (p *Path) feasible(c *Term) bool {
	if c.IsConst() {
		return c.IsTrue()
	}
	r, _ := p.S.Check(c, nil)
	if r == "unknown" || r == "error" {
		p.warn("feasibility query returned " + r + " (path kept)")
	}
	return r != "unsat"
}

// choose makes an n-way decision. alts[i] is the condition under which
// alternative i is possible (nil = unconditional).
func (p *Path) choose(alts []*Term, label string) int {
	if p.spec > 0 {
		panic(specAbort{"decision: " + label})
	}
	if p.pos < len(p.prefix) {
		c := p.prefix[p.pos]
		p.pos++
		if c >= len(alts) {
			panic(fmt.Sprintf("replay divergence at decision %d (%s): choice %d of %d", p.pos-1, label, c, len(alts)))
		}
		p.assume(alts[c])
		return c
	}
	if len(p.prefix) >= p.P.cfg.MaxDecisions {
		p.finish(&Outcome{Kind: "unwind", Msg: fmt.Sprintf("more than %d decisions on one path (last: %s)", p.P.cfg.MaxDecisions, label)})
	}
	var feas []int
	if len(alts) == 2 && alts[0] != nil && alts[1] != nil && alts[1].Op == "not" && alts[1].Args[0] == alts[0] {
		// binary branch: if one side is infeasible the other is feasible
		if p.feasible(alts[0]) {
			feas = append(feas, 0)
			if p.feasible(alts[1]) {
				feas = append(feas, 1)
			}
		} else {
			feas = append(feas, 1)
		}
	} else {
		for i, a := range alts {
			if a == nil || p.feasible(a) {
				feas = append(feas, i)
			}
		}
	}
	if len(feas) == 0 {
		p.finish(&Outcome{Kind: "infeasible", Msg: "no feasible alternative at " + label})
	}
	for _, o := range feas[1:] {
		alt := make([]int, len(p.prefix)+1)
		copy(alt, p.prefix)
		alt[len(p.prefix)] = o
		p.newAlts = append(p.newAlts, alt)
	}
	if p.decLabels == nil {
		p.decLabels = map[string]int{}
	}
	p.decLabels[fmt.Sprintf("%s/%d-of-%d", label, len(feas), len(alts))]++
	if decSites && len(feas) > 1 && p.cur != nil && p.cur.top != nil {
		site := p.cur.top.info.name
		if c := p.cur.top.caller; c != nil {
			site += " <- " + c.info.name
		}
		p.decLabels["site: "+label+" in "+site]++
	}
	c := feas[0]
	p.prefix = append(p.prefix, c)
	p.pos++
	p.assume(alts[c])
	return c
}

var decSites = os.Getenv("VERIF_DECSITES") != ""

func (p *Path) branch(c *Term) bool {
	if c.IsConst() {
		return c.IsTrue()
	}
	return p.choose([]*Term{c, Not(c)}, "branch") == 0
}

// concretize forces a BV term to a concrete int by forking over its feasible
// values: a candidate is taken from a solver model (and recorded in the
// decision list as a data entry so that re-execution sees the same candidate),
// then an ordinary binary decision "t == v" / "t != v" follows.
func (p *Path) concretize(t *Term, what string) int {
	if t.IsConst() {
		return int(t.Int64())
	}
	if p.spec > 0 {
		panic(specAbort{"concretize"})
	}
	for {
		var v int64
		if p.pos < len(p.prefix) {
			v = int64(p.prefix[p.pos])
			p.pos++
		} else {
			r, m := p.S.Check(nil, []*Term{t})
			if r != "sat" {
				if r == "unsat" {
					p.finish(&Outcome{Kind: "infeasible", Msg: "concretize: path infeasible"})
				}
				p.finish(&Outcome{Kind: "unknown", Msg: "concretize " + what + ": solver " + r})
			}
			v = BVC(t.S.W, m[0]).Int64()
			if len(p.prefix) >= p.P.cfg.MaxDecisions {
				p.finish(&Outcome{Kind: "unwind", Msg: "too many decisions (concretize " + what + ")"})
			}
			p.prefix = append(p.prefix, int(v))
			p.pos++
		}
		eq := Eq(t, BVI(t.S.W, v))
		if p.choose([]*Term{eq, Not(eq)}, "concretize "+what) == 0 {
			return int(v)
		}
	}
}

// concretizeRange forks over lo..hi for idx (BV64).
func (p *Path) concretizeRange(idx *Term, lo, hi int) int {
	if idx.IsConst() {
		return int(idx.Int64())
	}
	alts := make([]*Term, hi-lo+1)
	for i := range alts {
		alts[i] = Eq(idx, BVI(idx.S.W, int64(lo+i)))
	}
	return lo + p.choose(alts, "index")
}

// ---- nondeterministic inputs ----

func (p *Path) newVar(kind string, s Sort, tag string) *Term {
	if p.concreteMode {
		bits := uint(64)
		switch s.K {
		case KBool:
			bits = 1
		case KBV:
			bits = uint(s.W)
		}
		if kind == "big" {
			bits = 63
		}
		v, _ := p.concNext(bits)
		if s.K == KBool {
			v = new(big.Int).And(v, one)
		}
		var t *Term
		switch s.K {
		case KBool:
			t = BoolC(v.Sign() != 0)
		case KInt:
			t = IntC(v)
		default:
			t = BVC(s.W, v)
		}
		p.nondets = append(p.nondets, NondetRec{Kind: kind, Conc: v.Int64(), Tag: tag})
		return t
	}
	name := fmt.Sprintf("n%d_%s", len(p.nondets), kind)
	v := Var(name, s)
	p.nondets = append(p.nondets, NondetRec{Kind: kind, Var: v, Tag: tag})
	p.pin(v, len(p.nondets)-1)
	return v
}

// internalVar: environment-model input (time, uninterpreted results, …): part
// of the counterexample but not fed to the native harness.
func (p *Path) internalVar(kind string, s Sort) *Term {
	if p.concreteMode {
		switch s.K {
		case KBool:
			return TFalse
		case KInt:
			return IntI(0)
		}
		return BVU(s.W, 0)
	}
	name := fmt.Sprintf("n%d_%s", len(p.nondets), kind)
	v := Var(name, s)
	p.nondets = append(p.nondets, NondetRec{Kind: kind, Var: v, Internal: true})
	p.pin(v, len(p.nondets)-1)
	return v
}

func (p *Path) pin(v *Term, i int) {
	if p.pinned == nil || i >= len(p.pinned) {
		return
	}
	val, ok := new(big.Int).SetString(p.pinned[i].Val, 10)
	if !ok {
		return
	}
	switch v.S.K {
	case KBool:
		p.assume(Eq(v, BoolC(val.Sign() != 0)))
	case KInt:
		p.assume(Eq(v, IntC(val)))
	default:
		p.assume(Eq(v, BVC(v.S.W, val)))
	}
}

func (p *Path) freshVar(prefix string, s Sort) *Term {
	p.fresh++
	return Var(fmt.Sprintf("f%d_%s", p.fresh, prefix), s)
}

func (p *Path) replayValues(vals []*big.Int) []ReplayVal {
	var out []ReplayVal
	model := map[string]*big.Int{}
	k := 0
	for _, n := range p.nondets {
		if n.Var != nil {
			if k < len(vals) {
				model[n.Var.Name] = vals[k]
			}
			k++
		}
	}
	for _, n := range p.nondets {
		rv := ReplayVal{Kind: n.Kind, Tag: n.Tag, Internal: n.Internal}
		if n.Var == nil {
			rv.Val = fmt.Sprint(n.Conc)
		} else if v, ok := model[n.Var.Name]; ok {
			vv := v
			if n.Var.S.K == KBV && (n.Kind == "i64" || n.Kind == "int" || n.Kind == "i32") {
				vv = BVC(n.Var.S.W, v).Signed()
			}
			rv.Val = vv.String()
		} else {
			rv.Val = "0"
		}
		out = append(out, rv)
	}
	return out
}

func (p *Path) nondetVars() []*Term {
	var vs []*Term
	for _, n := range p.nondets {
		if n.Var != nil {
			vs = append(vs, n.Var)
		}
	}
	return vs
}

// assertion: cond must hold on this path.
func (p *Path) assertCond(fr *frame, c *Term, msg string) {
	site := p.siteOf(fr)
	if c.IsConst() {
		if c.IsTrue() {
			p.assertsTrivial++
			return
		}
		// definitely false on a feasible path
		r, m := p.S.Check(nil, p.nondetVars())
		if r == "unsat" {
			p.finish(&Outcome{Kind: "infeasible", Msg: "assert on infeasible path"})
		}
		p.violations = append(p.violations, &Violation{Kind: "assert", Msg: msg, Site: site, Values: p.replayValues(m), Prefix: append([]int{}, p.prefix...), Unknown: r != "sat", Stack: p.stack(fr)})
		p.finish(&Outcome{Kind: "violated", Msg: msg})
	}
	r, m := p.S.Check(Not(c), p.nondetVars())
	switch r {
	case "unsat":
		p.asserts++
		p.assume(c)
	case "sat":
		p.violations = append(p.violations, &Violation{Kind: "assert", Msg: msg, Site: site, Values: p.replayValues(m), Prefix: append([]int{}, p.prefix...), Stack: p.stack(fr)})
		// continue the path under the assumption that the assertion held, if possible
		if !p.feasible(c) {
			p.finish(&Outcome{Kind: "violated", Msg: msg})
		}
		p.assume(c)
	default:
		p.inconcl = append(p.inconcl, "assertion query "+r+" at "+site+": "+msg)
		p.assume(c)
	}
}

func (p *Path) siteOf(fr *frame) string {
	// position of the call instruction in the harness
	return fr.info.name
}

func (p *Path) stack(fr *frame) string {
	var sb strings.Builder
	for f := fr; f != nil; f = f.caller {
		sb.WriteString(f.info.name)
		sb.WriteString(" <- ")
	}
	return sb.String()
}

// ---- globals & package init ----

func (p *Path) global(fr *frame, g *ssa.Global) *Value {
	if v, ok := p.globals[g]; ok {
		return v
	}
	if p.P.cfg.GroupOrder != "" && g.Name() == "Order" && g.Pkg != nil && g.Pkg.Pkg.Path() == bn256Pkg {
		// bound group order (see intrinsics_bn256.go)
		var bigCell Value = BigVal{p.groupOrder()}
		cell := new(Value)
		*cell = &bigCell
		p.globals[g] = cell
		return cell
	}
	p.ensureInit(fr, g.Pkg)
	if v, ok := p.globals[g]; ok {
		return v
	}
	return p.allocGlobal(g)
}

func (p *Path) allocGlobal(g *ssa.Global) *Value {
	cell := new(Value)
	*cell = zero(g.Type().Underlying().(*types.Pointer).Elem())
	p.globals[g] = cell
	return cell
}

func (p *Path) ensureInit(fr *frame, pkg *ssa.Package) {
	if pkg == nil || p.inited[pkg] {
		return
	}
	p.inited[pkg] = true
	pkg.Build()
	if p.P.skipInit(pkg.Pkg.Path()) {
		return
	}
	initFn := pkg.Func("init")
	if initFn == nil || initFn.Blocks == nil {
		return
	}
	th := fr.th
	if os.Getenv("VERIF_INITTIME") != "" {
		t0 := time.Now()
		defer func() { fmt.Fprintf(os.Stderr, "init %s: %v\n", pkg.Pkg.Path(), time.Since(t0)) }()
	}
	func() {
		defer func() {
			if r := recover(); r != nil {
				switch e := r.(type) {
				case unsupportedErr:
					p.warn("init of " + pkg.Pkg.Path() + " abandoned: " + e.msg)
				case *goPanic:
					p.warn("init of " + pkg.Pkg.Path() + " panicked: " + e.String())
				default:
					panic(r)
				}
			}
		}()
		th.inInit++
		defer func() { th.inInit-- }()
		info := p.P.info(initFn)
		f := &frame{p: p, th: th, fn: initFn, info: info, caller: nil, tolerant: true}
		f.env = make([]Value, info.n)
		f.visits = make([]int32, len(initFn.Blocks))
		for _, l := range initFn.Locals {
			f.env[info.idx[l]] = new(Value)
		}
		f.block = initFn.Blocks[0]
		for f.block != nil {
			f.runFrame()
		}
	}()
}

func (p *Path) mapPolicy() string {
	if p.mapOrder != "" {
		return p.mapOrder
	}
	return p.P.cfg.MapOrder
}

// runtimeErrorValue builds the value recover() returns for runtime panics.
func (p *Path) runtimeErrorValue(gp *goPanic) Value {
	return Iface{T: types.Universe.Lookup("error").Type(), V: Opaque{Kind: "runtime.Error", X: gp.kind + ": " + gp.msg}}
}
