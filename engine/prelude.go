package main

import (
	"fmt"
	"strings"
)

// Harness API declarations injected into the package under test.
// Symbolic mode: body-less declarations intercepted by the engine.
func preludeSymbolic(pkg string) string {
	return "package " + pkg + `

import "math/big"

func vU8() uint8
func vU16() uint16
func vU32() uint32
func vU64() uint64
func vI64() int64
func vI32() int32
func vInt() int
func vBool() bool
func vBig(bits int) *big.Int
func vRange(lo, hi int) int
func vAssume(c bool)
func vAssert(c bool, msg string)
func vReach(tag string)
func vYield()
func vSetClock(ns int64)
func vSamePoint(a, b interface{ Marshal() []byte }) bool
func vClockMax(ns int64)
func vQuiesce()
func vObserve(tag string, v interface{})
func vSymbolic() bool
func vThorough() bool
func vMapOrder(policy string)
`
}

// Native mode: bodies reading values from a file named by VERIF_VALS, then
// from a deterministic PRNG seeded by VERIF_SEED_N (translator validation).
func preludeNative(pkg string, entries []string) string {
	var sb strings.Builder
	sb.WriteString("package " + pkg + "\n\n")
	sb.WriteString(`import (
	"encoding/json"
	"fmt"
	"math/big"
	"os"
	"runtime"
	"strconv"
	"sync"
	"time"
)

type verifAssumeFalse struct{}

var verifMu sync.Mutex
var verifPos int
var verifTrace []string
var verifSeed uint64
var verifThorough bool
var verifVals []string

func verifInit() {
	if f := os.Getenv("VERIF_VALS"); f != "" {
		b, err := os.ReadFile(f)
		if err == nil {
			json.Unmarshal(b, &verifVals)
		}
	}
	verifSeed, _ = strconv.ParseUint(os.Getenv("VERIF_SEED_N"), 10, 64)
	verifThorough = os.Getenv("VERIF_THOROUGH") == "1"
}

func verifRnd() uint64 {
	verifSeed += 0x9e3779b97f4a7c15
	z := verifSeed
	z = (z ^ (z >> 30)) * 0xbf58476d1ce4e5b9
	z = (z ^ (z >> 27)) * 0x94d049bb133111eb
	return z ^ (z >> 31)
}

// verifNext returns the next input: from the list, else pseudo-random
// (small values favoured), reduced to the given bit width.
func verifNext(bits uint) (*big.Int, bool) {
	verifMu.Lock()
	defer verifMu.Unlock()
	if verifPos < len(verifVals) {
		v, _ := new(big.Int).SetString(verifVals[verifPos], 10)
		verifPos++
		return v, true
	}
	verifPos++
	r := verifRnd()
	var v uint64
	if r&1 == 0 {
		v = (r >> 1) % 17
	} else {
		v = verifRnd()
	}
	if bits < 64 {
		v &= (uint64(1) << bits) - 1
	}
	return new(big.Int).SetUint64(v), false
}

func verifU(bits uint) uint64 {
	v, _ := verifNext(bits)
	if v.Sign() < 0 {
		return uint64(v.Int64())
	}
	return v.Uint64()
}

func vU8() uint8   { return uint8(verifU(8)) }
func vU16() uint16 { return uint16(verifU(16)) }
func vU32() uint32 { return uint32(verifU(32)) }
func vU64() uint64 { return verifU(64) }
func vI64() int64  { return int64(verifU(64)) }
func vI32() int32  { return int32(verifU(32)) }
func vInt() int    { return int(verifU(64)) }
func vBool() bool  { return verifU(1) != 0 }
func vBig(bits int) *big.Int {
	b := uint(bits)
	if b > 63 {
		b = 63
	}
	v, _ := verifNext(b)
	return v
}
func vRange(lo, hi int) int {
	v, fromList := verifNext(62)
	if fromList {
		return int(v.Int64())
	}
	return lo + int(v.Uint64()%uint64(hi-lo+1))
}
func vAssume(c bool) {
	if !c {
		panic(verifAssumeFalse{})
	}
}
func vAssert(c bool, msg string) {
	if !c {
		fmt.Println("VERIF-ASSERT-FAILED: " + msg)
		panic("VERIF-ASSERT-FAILED: " + msg)
	}
}
func vReach(tag string) {}
func vYield()           { runtime.Gosched() }
func vSetClock(int64)   {}
func vSamePoint(a, b interface{ Marshal() []byte }) bool {
	return string(a.Marshal()) == string(b.Marshal())
}
func vClockMax(int64)   {}
func vQuiesce() {
	for i := 0; i < 20; i++ {
		runtime.Gosched()
		time.Sleep(2 * time.Millisecond)
	}
}
func vSymbolic() bool   { return false }
func vThorough() bool   { return verifThorough }
func vMapOrder(string)  {}
func vObserve(tag string, v interface{}) {
	verifMu.Lock()
	verifTrace = append(verifTrace, fmt.Sprintf("%s=%v", tag, v))
	verifMu.Unlock()
}

var verifEntries = map[string]func(){
`)
	for _, e := range entries {
		fmt.Fprintf(&sb, "\t%q: %s,\n", e, e)
	}
	sb.WriteString("}\n")
	return sb.String()
}

func replayTest(pkg string) string {
	return "package " + pkg + `

import (
	"fmt"
	"os"
	"testing"
)

func TestVerifReplay(t *testing.T) {
	verifInit()
	entry := verifEntries[os.Getenv("VERIF_ENTRY")]
	if entry == nil {
		t.Fatalf("unknown entry")
	}
	defer func() {
		r := recover()
		for _, l := range verifTrace {
			fmt.Println("VERIF-OBS: " + l)
		}
		fmt.Printf("VERIF-POS: %d\n", verifPos)
		if r == nil {
			fmt.Println("VERIF-OUTCOME: ok")
			return
		}
		if _, ok := r.(verifAssumeFalse); ok {
			fmt.Println("VERIF-OUTCOME: assume-false")
			return
		}
		if s, ok := r.(string); ok && len(s) > 20 && s[:20] == "VERIF-ASSERT-FAILED:" {
			fmt.Println("VERIF-OUTCOME: assert-failed")
			return
		}
		fmt.Printf("VERIF-OUTCOME: panic %v\n", r)
	}()
	entry()
}
`
}
