package main

// Happens-before data-race detection over the interpreted program (vector
// clocks, FastTrack-style shadow state). Enabled per unit with "race": true.
// Synchronisation edges: go statement, mutex/RWMutex unlock->lock, channel
// send/close->receive, WaitGroup Done->Wait, Once, atomics. The relation is
// over-approximated where in doubt (channel-level clocks), so a reported race
// is a pair of conflicting accesses that no synchronisation orders — the
// report does not depend on the interleaving explored. Only accesses made by
// repository code (not harness code, not library internals) are tracked.

import (
	"fmt"
	"strings"
)

type vclock []int

func (v vclock) get(i int) int {
	if i < len(v) {
		return v[i]
	}
	return 0
}

func vcJoin(a, b vclock) vclock {
	n := len(a)
	if len(b) > n {
		n = len(b)
	}
	r := make(vclock, n)
	for i := range r {
		x, y := a.get(i), b.get(i)
		if y > x {
			x = y
		}
		r[i] = x
	}
	return r
}

type accessRec struct {
	tid   int
	clock int
	fn    string
}

type shadow struct {
	write *accessRec
	reads []accessRec
}

type raceState struct {
	sync   map[interface{}]vclock
	shadow map[interface{}]*shadow
	seen   map[string]bool
}

func (p *Path) raceOn() bool { return p.P.cfg.Race && !p.concreteMode }

func (p *Path) rs() *raceState {
	if p.race == nil {
		p.race = &raceState{sync: map[interface{}]vclock{}, shadow: map[interface{}]*shadow{}, seen: map[string]bool{}}
	}
	return p.race
}

func (t *Thread) tick() {
	for len(t.vc) <= t.id {
		t.vc = append(t.vc, 0)
	}
	t.vc[t.id]++
}

// raceSpawn: child starts after everything the parent did so far.
func (p *Path) raceSpawn(parent, child *Thread) {
	if !p.raceOn() {
		return
	}
	parent.tick()
	child.vc = append(vclock{}, parent.vc...)
	child.tick()
	parent.tick()
}

func (p *Path) raceRelease(t *Thread, obj interface{}) {
	if !p.raceOn() || t == nil {
		return
	}
	r := p.rs()
	t.tick()
	r.sync[obj] = vcJoin(r.sync[obj], t.vc)
	t.tick()
}

func (p *Path) raceAcquire(t *Thread, obj interface{}) {
	if !p.raceOn() || t == nil {
		return
	}
	r := p.rs()
	t.vc = vcJoin(t.vc, r.sync[obj])
	t.tick()
}

// raceJoinAll: the caller synchronises with every finished thread (vQuiesce).
func (p *Path) raceJoinAll(t *Thread) {
	if !p.raceOn() {
		return
	}
	for _, o := range p.threads {
		if o != t && o.done {
			t.vc = vcJoin(t.vc, o.vc)
		}
	}
	t.tick()
}

func (p *Path) raceAccess(fr *frame, loc interface{}, write bool, what string) {
	if !p.raceOn() || fr == nil || fr.info == nil || !fr.info.inRepo || fr.th == nil || fr.th.inInit > 0 || len(p.threads) < 2 {
		return
	}
	t := fr.th
	if len(t.vc) <= t.id {
		t.tick()
	}
	r := p.rs()
	sh := r.shadow[loc]
	if sh == nil {
		sh = &shadow{}
		r.shadow[loc] = sh
	}
	me := accessRec{tid: t.id, clock: t.vc[t.id], fn: fr.info.name}
	report := func(prev accessRec, prevWrite bool) {
		kind := func(w bool) string {
			if w {
				return "write"
			}
			return "read"
		}
		key := prev.fn + "|" + me.fn + "|" + what
		if r.seen[key] {
			return
		}
		r.seen[key] = true
		msg := fmt.Sprintf("data race on %s: %s in %s and %s in %s are not ordered by any synchronisation", what, kind(prevWrite), shortFn(prev.fn), kind(write), shortFn(me.fn))
		res, m := p.S.Check(nil, p.nondetVars())
		if res == "unsat" {
			return
		}
		p.violations = append(p.violations, &Violation{Kind: "race", Msg: msg, Site: "race", Values: p.replayValues(m), Prefix: append([]int{}, p.prefix...), Unknown: res != "sat", Stack: p.stack(fr)})
	}
	if w := sh.write; w != nil && w.tid != t.id && w.clock > t.vc.get(w.tid) {
		report(*w, true)
	}
	if write {
		for _, rd := range sh.reads {
			if rd.tid != t.id && rd.clock > t.vc.get(rd.tid) {
				report(rd, false)
			}
		}
		sh.write = &me
		sh.reads = nil
		return
	}
	for i := range sh.reads {
		if sh.reads[i].tid == t.id {
			sh.reads[i] = me
			return
		}
	}
	sh.reads = append(sh.reads, me)
}

func shortFn(s string) string {
	if i := strings.LastIndex(s, "/"); i >= 0 {
		return s[i+1:]
	}
	return s
}
