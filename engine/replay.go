package main

// Native replay of counterexamples and translator validation: the harness is
// compiled with the real package (go test -c -overlay) and run on concrete
// input vectors; the engine is run on the same vectors in concrete mode.

import (
	"encoding/json"
	"fmt"
	"math/big"
	"os"
	"os/exec"
	"path/filepath"
	"strings"
	"time"

	"golang.org/x/tools/go/ssa"
)

type ReplayResult struct {
	Status string // reproduced | not-reproduced | build-failed | engine-confirmed | engine-unconfirmed
	Output string
}

type nativeBin struct {
	path string
	dir  string
	err  string
}

func (P *Prog) buildNative() *nativeBin {
	if P.native != nil {
		return P.native
	}
	nb := &nativeBin{}
	P.native = nb
	dir, err := os.MkdirTemp("", "verif-native-")
	if err != nil {
		nb.err = err.Error()
		return nb
	}
	nb.dir = dir
	pkgDir := filepath.Join(P.repo, P.cfg.Pkg)
	pkgName, _ := packageNameOf(pkgDir)
	ov := map[string]string{}
	put := func(name, content string) {
		f := filepath.Join(dir, name)
		os.WriteFile(f, []byte(content), 0o644)
		ov[filepath.Join(pkgDir, name)] = f
	}
	for _, h := range P.cfg.Harness {
		b, _ := os.ReadFile(filepath.Join(P.cfgDir, h))
		put("zz_verif_"+filepath.Base(h), string(b))
	}
	put("zz_verif_prelude.go", preludeNative(pkgName, P.cfg.Entries))
	for target, src := range P.cfg.Extra {
		b, _ := os.ReadFile(filepath.Join(P.cfgDir, src))
		f := filepath.Join(dir, "extra_"+filepath.Base(target))
		os.WriteFile(f, b, 0o644)
		ov[filepath.Join(P.repo, target)] = f
	}
	put("zz_verif_replay_test.go", replayTest(pkgName))
	ob, _ := json.Marshal(map[string]interface{}{"Replace": ov})
	ovf := filepath.Join(dir, "overlay.json")
	os.WriteFile(ovf, ob, 0o644)
	bin := filepath.Join(dir, "t.bin")
	out, err := runCmd(P.repo, 15*time.Minute, "go", "test", "-c", "-vet=off", "-overlay", ovf, "-o", bin, "./"+P.cfg.Pkg)
	if err != nil {
		nb.err = "build failed: " + err.Error() + "\n" + tail(out, 3000)
		return nb
	}
	nb.path = bin
	return nb
}

func (P *Prog) cleanupNative() {
	if P.native != nil && P.native.dir != "" {
		os.RemoveAll(P.native.dir)
	}
}

func tail(s string, n int) string {
	if len(s) > n {
		return s[len(s)-n:]
	}
	return s
}

type nativeRun struct {
	Obs     []string
	Outcome string
	Pos     string
	Output  string
	Err     string
}

func (P *Prog) runNative(entry string, vals []ReplayVal, seed uint64) *nativeRun {
	nb := P.buildNative()
	r := &nativeRun{}
	if nb.path == "" {
		r.Err = nb.err
		return r
	}
	env := goEnv()
	env = append(env, "VERIF_ENTRY="+entry, fmt.Sprintf("VERIF_SEED_N=%d", seed))
	if P.tier == "thorough" {
		env = append(env, "VERIF_THOROUGH=1")
	}
	if vals != nil {
		var ss []string
		for _, v := range vals {
			if v.Internal {
				continue
			}
			ss = append(ss, v.Val)
		}
		vb, _ := json.Marshal(ss)
		vf := filepath.Join(nb.dir, fmt.Sprintf("vals-%d.json", time.Now().UnixNano()))
		os.WriteFile(vf, vb, 0o644)
		defer os.Remove(vf)
		env = append(env, "VERIF_VALS="+vf)
	}
	cmd := exec.Command("timeout", "120", nb.path, "-test.run", "^TestVerifReplay$", "-test.count=1", "-test.timeout", "60s")
	cmd.Dir = filepath.Join(P.repo, P.cfg.Pkg)
	cmd.Env = env
	out, _ := cmd.CombinedOutput()
	r.Output = tail(string(out), 4000)
	for _, line := range strings.Split(string(out), "\n") {
		switch {
		case strings.HasPrefix(line, "VERIF-OBS: "):
			r.Obs = append(r.Obs, strings.TrimPrefix(line, "VERIF-OBS: "))
		case strings.HasPrefix(line, "VERIF-POS: "):
			r.Pos = strings.TrimPrefix(line, "VERIF-POS: ")
		case strings.HasPrefix(line, "VERIF-OUTCOME: "):
			r.Outcome = strings.TrimPrefix(line, "VERIF-OUTCOME: ")
		}
	}
	if r.Outcome == "" {
		switch {
		case strings.Contains(string(out), "VERIF-ASSERT-FAILED"):
			r.Outcome = "assert-failed"
		case strings.Contains(string(out), "test timed out"), strings.Contains(string(out), "all goroutines are asleep"):
			r.Outcome = "deadlock"
		case strings.Contains(string(out), "panic:"), strings.Contains(string(out), "fatal error:"):
			r.Outcome = "panic (crash)"
		default:
			r.Outcome = "unknown"
		}
	}
	return r
}

// ---- concrete-mode input generator (mirror of the native prelude) ----

func (p *Path) concRnd() uint64 {
	p.concSeed += 0x9e3779b97f4a7c15
	z := p.concSeed
	z = (z ^ (z >> 30)) * 0xbf58476d1ce4e5b9
	z = (z ^ (z >> 27)) * 0x94d049bb133111eb
	return z ^ (z >> 31)
}

func (p *Path) concNext(bits uint) (*big.Int, bool) {
	if p.concPos < len(p.concreteVals) {
		v, _ := new(big.Int).SetString(p.concreteVals[p.concPos].Val, 10)
		p.concPos++
		return v, true
	}
	p.concPos++
	r := p.concRnd()
	var v uint64
	if r&1 == 0 {
		v = (r >> 1) % 17
	} else {
		v = p.concRnd()
	}
	if bits < 64 {
		v &= (uint64(1) << bits) - 1
	}
	return new(big.Int).SetUint64(v), false
}

// engineConcrete runs the entry in concrete mode on a vector.
func (P *Prog) engineConcrete(entry *ssa.Function, vals []ReplayVal, seed uint64) (obs []string, outcome string, pos int, detail string) {
	S, err := NewSolver(5000, false)
	if err != nil {
		return nil, "engine-error", 0, err.Error()
	}
	defer S.Close()
	p := P.newPath(S, nil)
	p.concreteMode = true
	p.concreteVals = vals
	p.concSeed = seed
	P.runPath(p, entry)
	switch p.outcome.Kind {
	case "ok":
		outcome = "ok"
	case "pruned":
		outcome = "assume-false"
	case "violated":
		if len(p.violations) > 0 && p.violations[0].Kind == "assert" {
			outcome = "assert-failed"
		} else {
			outcome = "panic"
		}
	default:
		outcome = p.outcome.Kind
	}
	return p.observations, outcome, p.concPos, p.outcome.Msg
}

// validateTranslator compares native and engine runs on pseudo-random vectors.
func (P *Prog) validateTranslator(entry *ssa.Function, n int, seed uint64, vecs [][]ReplayVal) (ok, bad int, msgs []string) {
	if nb := P.buildNative(); nb.path == "" {
		return 0, 1, []string{"native build failed: " + tail(nb.err, 1500)}
	}
	if len(vecs) > n {
		vecs = vecs[:n]
	}
	n = len(vecs) + 2 // solver-derived vectors of completed paths + two pseudo-random ones
	type res struct {
		good bool
		msg  string
	}
	ch := make(chan res, n)
	sem := make(chan struct{}, 8)
	for i := 0; i < n; i++ {
		go func(i int) {
			sem <- struct{}{}
			defer func() { <-sem }()
			s := seed*1000003 + uint64(i)*7919 + 17
			var vals []ReplayVal
			if i < len(vecs) {
				vals = []ReplayVal{}
				for _, v := range vecs[i] {
					if !v.Internal {
						vals = append(vals, v)
					}
				}
			}
			nr := P.runNative(entry.Name(), vals, s)
			eo, eout, epos, detail := P.engineConcrete(entry, vals, s)
			nOut := nr.Outcome
			if strings.HasPrefix(nOut, "panic") {
				nOut = "panic"
			}
			if eout == "unsupported" || eout == "unwind" || eout == "budget" {
				ch <- res{false, fmt.Sprintf("seed %d: engine %s: %s", s, eout, detail)}
				return
			}
			if nOut != eout {
				ch <- res{false, fmt.Sprintf("seed %d: outcome native=%q engine=%q (%s) native-out=%s", s, nr.Outcome, eout, detail, tail(nr.Output, 300))}
				return
			}
			if nOut != "panic" && nr.Pos != fmt.Sprint(epos) {
				ch <- res{false, fmt.Sprintf("seed %d: inputs consumed native=%s engine=%d", s, nr.Pos, epos)}
				return
			}
			if strings.Join(nr.Obs, "|") != strings.Join(eo, "|") {
				ch <- res{false, fmt.Sprintf("seed %d: observations native=%v engine=%v", s, nr.Obs, eo)}
				return
			}
			ch <- res{true, ""}
		}(i)
	}
	for i := 0; i < n; i++ {
		r := <-ch
		if r.good {
			ok++
		} else {
			bad++
			if len(msgs) < 3 {
				msgs = append(msgs, r.msg)
			}
		}
	}
	return
}

func (P *Prog) replayViolation(entry string, v *Violation) ReplayResult {
	if P.cfg.Replay == "native" && v.Kind != "race" {
		var last *nativeRun
		for try := 0; try < 3; try++ {
			nr := P.runNative(entry, v.Values, 0)
			last = nr
			if nr.Err != "" {
				return ReplayResult{Status: "build-failed", Output: nr.Err}
			}
			switch v.Kind {
			case "assert":
				if nr.Outcome == "assert-failed" && strings.Contains(nr.Output, "VERIF-ASSERT-FAILED: "+v.Msg) {
					return ReplayResult{Status: "reproduced", Output: tail(nr.Output, 1500)}
				}
			case "panic":
				if strings.HasPrefix(nr.Outcome, "panic") {
					return ReplayResult{Status: "reproduced", Output: tail(nr.Output, 1500)}
				}
			case "deadlock":
				if nr.Outcome == "deadlock" {
					return ReplayResult{Status: "reproduced", Output: tail(nr.Output, 1500)}
				}
			}
		}
		return ReplayResult{Status: "not-reproduced", Output: tail(last.Output, 1500)}
	}
	// engine confirmation: re-run the same decisions with inputs pinned to the model
	f := P.harnessSSA.Func(entry)
	S, err := NewSolver(P.cfg.SolverTimeoutMs, false)
	if err != nil {
		return ReplayResult{Status: "engine-unconfirmed", Output: err.Error()}
	}
	S.FallbackMs = P.cfg.SolverTimeoutMs
	defer S.Close()
	p := P.newPath(S, v.Prefix)
	p.pinned = v.Values
	P.runPath(p, f)
	for _, w := range p.violations {
		if w.Kind == v.Kind && w.Msg == v.Msg {
			out := "violation re-derived with all inputs pinned to the model values (environment-modelled harness; native replay not applicable)"
			// optional native confirmation of schedule-dependent violations: run the
			// compiled harness repeatedly with the model's inputs until the Go
			// scheduler produces a failing interleaving
			for try := 0; try < P.cfg.StressRuns; try++ {
				nr := P.runNative(entry, v.Values, uint64(try))
				if nr.Err != "" {
					break
				}
				if (v.Kind == "assert" && nr.Outcome == "assert-failed" && strings.Contains(nr.Output, "VERIF-ASSERT-FAILED: "+v.Msg)) ||
					(v.Kind == "panic" && strings.HasPrefix(nr.Outcome, "panic")) {
					out += fmt.Sprintf("; ALSO reproduced natively against the real build under the Go scheduler (stress run %d of %d):\n%s", try+1, P.cfg.StressRuns, tail(nr.Output, 600))
					break
				}
			}
			return ReplayResult{Status: "engine-confirmed", Output: out}
		}
	}
	return ReplayResult{Status: "engine-unconfirmed", Output: p.outcome.Kind + ": " + p.outcome.Msg}
}

func doReplayFile(file, repo, cfgDir string, cfg *Config) int {
	b, err := os.ReadFile(file)
	if err != nil {
		fmt.Fprintln(os.Stderr, err)
		return 2
	}
	var rec struct {
		UnitPkg string      `json:"unit_pkg"`
		Entry   string      `json:"entry"`
		Kind    string      `json:"kind"`
		Message string      `json:"message"`
		Values  []ReplayVal `json:"values"`
		Prefix  []int       `json:"decisions"`
	}
	if err := json.Unmarshal(b, &rec); err != nil {
		fmt.Fprintln(os.Stderr, err)
		return 2
	}
	for ui := range cfg.Units {
		u := &cfg.Units[ui]
		has := false
		for _, e := range u.Entries {
			if e == rec.Entry {
				has = true
			}
		}
		if !has {
			continue
		}
		applyDefaults(u, "quick")
		P, err := loadProg(repo, cfgDir, u, "quick")
		if err != nil {
			fmt.Fprintln(os.Stderr, err)
			return 2
		}
		defer P.cleanupNative()
		r := P.replayViolation(rec.Entry, &Violation{Kind: rec.Kind, Msg: rec.Message, Values: rec.Values, Prefix: rec.Prefix})
		fmt.Printf("replay status=%s\n%s\n", r.Status, r.Output)
		if r.Status == "reproduced" || r.Status == "engine-confirmed" {
			fmt.Printf("VIOLATION property=%s replay=%s\n", cfg.ID, file)
			return 1
		}
		return 0
	}
	fmt.Fprintln(os.Stderr, "entry not found in cfg")
	return 2
}
