package main

// Persistent SMT solver process (z3 -in), SMT-LIB2 text protocol.

import (
	"bufio"
	"fmt"
	"io"
	"math/big"
	"os"
	"os/exec"
	"strings"
	"time"
)

type Solver struct {
	cmd     *exec.Cmd
	in      io.WriteCloser
	out     *bufio.Reader
	emitted map[uint64]bool
	vars    map[string]bool
	ufs     map[string]bool
	Queries int
	Time    time.Duration
	Errors  []string
	TimeoutMs int
	record  bool
	script  strings.Builder
	bin     []string
	inPush  int
	FallbackMs     int
	PrimaryUnknown int
	FallbackUsed   map[string]int
}

func NewSolver(timeoutMs int, record bool) (*Solver, error) {
	s := &Solver{TimeoutMs: timeoutMs, record: record, bin: []string{"z3", "-in"}, FallbackUsed: map[string]int{}}
	if err := s.start(); err != nil {
		return nil, err
	}
	return s, nil
}

func (s *Solver) start() error {
	s.cmd = exec.Command(s.bin[0], s.bin[1:]...)
	in, err := s.cmd.StdinPipe()
	if err != nil {
		return err
	}
	out, err := s.cmd.StdoutPipe()
	if err != nil {
		return err
	}
	s.cmd.Stderr = os.Stderr
	if err := s.cmd.Start(); err != nil {
		return err
	}
	s.in = in
	s.out = bufio.NewReaderSize(out, 1<<16)
	s.Reset()
	return nil
}

func (s *Solver) Close() {
	if s.cmd != nil {
		s.in.Close()
		s.cmd.Process.Kill()
		s.cmd.Wait()
		s.cmd = nil
	}
}

// fallback re-decides a query the primary solver gave up on with a portfolio
// of one-shot solvers over the recorded base script (declarations,
// definitions, assertions of the current path).
func (s *Solver) fallback(extra *Term, wantModel []*Term) (string, []*big.Int, string) {
	if s.FallbackMs <= 0 {
		return "", nil, ""
	}
	var sb strings.Builder
	sb.WriteString("(set-logic ALL)\n")
	sb.WriteString(s.script.String())
	if extra != nil {
		sb.WriteString("(assert " + extra.ref() + ")\n")
	}
	sb.WriteString("(check-sat)\n")
	if len(wantModel) > 0 {
		var names []string
		for _, v := range wantModel {
			names = append(names, v.ref())
		}
		sb.WriteString("(get-value (" + strings.Join(names, " ") + "))\n")
	}
	f, err := os.CreateTemp("", "verifq-*.smt2")
	if err != nil {
		return "", nil, ""
	}
	defer os.Remove(f.Name())
	f.WriteString(sb.String())
	f.Close()
	if d := os.Getenv("VERIF_DUMPQ"); d != "" {
		dumpCounter++
		os.WriteFile(fmt.Sprintf("%s/q%d_%d.smt2", d, os.Getpid(), dumpCounter), []byte(sb.String()), 0o644)
	}
	secs := fmt.Sprint((s.FallbackMs + 999) / 1000)
	quick := "10"
	if s.FallbackMs < 10000 {
		quick = secs
	}
	cmds := [][]string{
		// the same solver one-shot: outside incremental mode z3 applies its
		// full preprocessing, which decides e.g. small modular nonlinear
		// queries in a fraction of a second
		{"z3", "-T:" + quick, f.Name()},
		{"cvc5", "--solve-bv-as-int=sum", "--produce-models", "--tlimit=" + fmt.Sprint(s.FallbackMs), f.Name()},
		{"z3-new", "-T:" + secs, f.Name()},
		{"cvc5", "--produce-models", "--tlimit=" + fmt.Sprint(s.FallbackMs), f.Name()},
	}
	for _, c := range cmds {
		out, _ := exec.Command("timeout", append([]string{fmt.Sprint(s.FallbackMs/1000 + 5)}, c...)...).Output()
		txt := string(out)
		lines := strings.SplitN(strings.TrimSpace(txt), "\n", 2)
		if len(lines) == 0 {
			continue
		}
		switch strings.TrimSpace(lines[0]) {
		case "unsat":
			return "unsat", nil, c[0] + c[1]
		case "sat":
			var model []*big.Int
			if len(wantModel) > 0 && len(lines) > 1 {
				vals := parseValues(lines[1])
				for k := range wantModel {
					if k < len(vals) {
						model = append(model, vals[k])
					} else {
						model = append(model, big.NewInt(0))
					}
				}
			}
			return "sat", model, c[0] + c[1]
		}
	}
	return "", nil, ""
}

func baseLine(cmd string) bool {
	return !(strings.HasPrefix(cmd, "(push") || strings.HasPrefix(cmd, "(pop") || strings.HasPrefix(cmd, "(check-sat") ||
		strings.HasPrefix(cmd, "(get-value") || strings.HasPrefix(cmd, "(reset") || strings.HasPrefix(cmd, "(set-option"))
}

func (s *Solver) send(cmd string) {
	if s.inPush == 0 && baseLine(cmd) {
		s.script.WriteString(cmd)
		s.script.WriteByte('\n')
	}
	if strings.HasPrefix(cmd, "(push") {
		s.inPush++
	} else if strings.HasPrefix(cmd, "(pop") {
		s.inPush--
	}
	io.WriteString(s.in, cmd)
	io.WriteString(s.in, "\n")
}

func (s *Solver) Reset() {
	s.emitted = map[uint64]bool{}
	s.vars = map[string]bool{}
	s.ufs = map[string]bool{}
	s.script.Reset()
	s.send("(reset)")
	s.send(fmt.Sprintf("(set-option :timeout %d)", s.TimeoutMs))
}

func (s *Solver) DeclareUF(d *UFDecl) {
	if s.ufs[d.Name] {
		return
	}
	s.ufs[d.Name] = true
	var as []string
	for _, a := range d.Args {
		as = append(as, a.String())
	}
	s.send(fmt.Sprintf("(declare-fun %s (%s) %s)", d.Name, strings.Join(as, " "), d.Ret))
}

var ufRegistry = map[string]*UFDecl{}

func (s *Solver) emit(t *Term) {
	switch t.Op {
	case "const":
		return
	case "var":
		if !s.vars[t.Name] {
			s.vars[t.Name] = true
			s.send(fmt.Sprintf("(declare-const %s %s)", t.Name, t.S))
		}
		return
	}
	if s.emitted[t.id] {
		return
	}
	for _, a := range t.Args {
		s.emit(a)
	}
	if t.Op == "app" && !s.ufs[t.Name] {
		s.ufs[t.Name] = true
		var as []string
		for _, a := range t.Args {
			as = append(as, a.S.String())
		}
		s.send(fmt.Sprintf("(declare-fun %s (%s) %s)", t.Name, strings.Join(as, " "), t.S))
	}
	s.emitted[t.id] = true
	s.send(fmt.Sprintf("(define-fun t%d () %s %s)", t.id, t.S, t.body()))
}

func (s *Solver) Assert(t *Term) {
	if t.IsTrue() {
		return
	}
	s.emit(t)
	s.send("(assert " + t.ref() + ")")
}

func (s *Solver) readLine() string {
	line, err := s.out.ReadString('\n')
	if err != nil {
		return "(error \"solver died: " + err.Error() + "\")"
	}
	return strings.TrimSpace(line)
}

// Check satisfiability of (asserted ∧ extra). If wantModel and sat, values of
// vars are returned. Result: "sat" | "unsat" | "unknown" | "error".
func (s *Solver) Check(extra *Term, wantModel []*Term) (string, []*big.Int) {
	start := time.Now()
	defer func() { s.Time += time.Since(start); s.Queries++ }()
	if extra != nil {
		s.emit(extra)
	}
	for _, v := range wantModel {
		s.emit(v)
	}
	s.send("(push 1)")
	if extra != nil {
		s.send("(assert " + extra.ref() + ")")
	}
	s.send("(check-sat)")
	res := ""
	for {
		line := s.readLine()
		if line == "" {
			continue
		}
		if strings.HasPrefix(line, "(error") {
			s.Errors = append(s.Errors, line)
			if strings.Contains(line, "solver died") {
				res = "error"
				break
			}
			continue
		}
		if line == "sat" || line == "unsat" || line == "unknown" || line == "timeout" {
			res = line
			if res == "timeout" {
				res = "unknown"
			}
			break
		}
		s.Errors = append(s.Errors, "unexpected: "+line)
	}
	var model []*big.Int
	if res == "sat" && len(wantModel) > 0 {
		// chunk to keep lines manageable
		for i := 0; i < len(wantModel); i += 64 {
			j := i + 64
			if j > len(wantModel) {
				j = len(wantModel)
			}
			var names []string
			for _, v := range wantModel[i:j] {
				names = append(names, v.ref())
			}
			s.send("(get-value (" + strings.Join(names, " ") + "))")
			txt := s.readSexp()
			vals := parseValues(txt)
			for k := range wantModel[i:j] {
				if k < len(vals) {
					model = append(model, vals[k])
				} else {
					model = append(model, big.NewInt(0))
				}
			}
		}
	}
	s.send("(pop 1)")
	if d := os.Getenv("VERIF_DUMPQ"); d != "" && time.Since(start) > 1500*time.Millisecond {
		dumpCounter++
		x := ""
		if extra != nil {
			x = "(assert " + extra.ref() + ")\n"
		}
		os.WriteFile(fmt.Sprintf("%s/slow%d_%d_%s.smt2", d, os.Getpid(), dumpCounter, res), []byte(s.script.String()+x+"(check-sat)\n"), 0o644)
	}
	if res == "unknown" {
		s.PrimaryUnknown++
		if r2, m2, who := s.fallback(extra, wantModel); r2 != "" {
			res, model = r2, m2
			s.FallbackUsed[who]++
		}
	}
	if res == "error" {
		if d := os.Getenv("VERIF_DUMPQ"); d != "" {
			dumpCounter++
			x := ""
			if extra != nil {
				x = "(assert " + extra.ref() + ")\n"
			}
			os.WriteFile(fmt.Sprintf("%s/died%d_%d.smt2", d, os.Getpid(), dumpCounter), []byte(s.script.String()+x+"(check-sat)\n"), 0o644)
		}
		s.Close()
		s.start()
	}
	return res, model
}

// read one balanced s-expression (may span lines)
func (s *Solver) readSexp() string {
	var sb strings.Builder
	depth := 0
	started := false
	for {
		line, err := s.out.ReadString('\n')
		if err != nil {
			return sb.String()
		}
		sb.WriteString(line)
		for _, c := range line {
			if c == '(' {
				depth++
				started = true
			} else if c == ')' {
				depth--
			}
		}
		if started && depth <= 0 {
			return sb.String()
		}
	}
}

// parse "((a #x01) (b true) (c (- 5)))" into values in order
func parseValues(txt string) []*big.Int {
	toks := tokenize(txt)
	var out []*big.Int
	// expect ( ( name val ) ( name val ) ... )
	i := 0
	if i < len(toks) && toks[i] == "(" {
		i++
	}
	for i < len(toks) && toks[i] == "(" {
		i++ // (
		// name: either atom or nested expr
		if toks[i] == "(" {
			d := 1
			i++
			for d > 0 {
				if toks[i] == "(" {
					d++
				} else if toks[i] == ")" {
					d--
				}
				i++
			}
		} else {
			i++
		}
		var v *big.Int
		v, i = parseVal(toks, i)
		out = append(out, v)
		if i < len(toks) && toks[i] == ")" {
			i++
		}
	}
	return out
}

func parseVal(toks []string, i int) (*big.Int, int) {
	t := toks[i]
	switch {
	case t == "true":
		return big.NewInt(1), i + 1
	case t == "false":
		return big.NewInt(0), i + 1
	case strings.HasPrefix(t, "#x"):
		v, _ := new(big.Int).SetString(t[2:], 16)
		return v, i + 1
	case strings.HasPrefix(t, "#b"):
		v, _ := new(big.Int).SetString(t[2:], 2)
		return v, i + 1
	case t == "(":
		// (- n) or (_ bvN w)
		if toks[i+1] == "-" {
			v, j := parseVal(toks, i+2)
			return new(big.Int).Neg(v), j + 1
		}
		if toks[i+1] == "_" {
			v, _ := new(big.Int).SetString(strings.TrimPrefix(toks[i+2], "bv"), 10)
			return v, i + 5
		}
		// unknown: skip
		d := 1
		j := i + 1
		for d > 0 {
			if toks[j] == "(" {
				d++
			} else if toks[j] == ")" {
				d--
			}
			j++
		}
		return big.NewInt(0), j
	default:
		v, ok := new(big.Int).SetString(t, 10)
		if !ok {
			v = big.NewInt(0)
		}
		return v, i + 1
	}
}

func tokenize(s string) []string {
	var toks []string
	cur := ""
	for _, c := range s {
		switch c {
		case '(', ')':
			if cur != "" {
				toks = append(toks, cur)
				cur = ""
			}
			toks = append(toks, string(c))
		case ' ', '\n', '\t', '\r':
			if cur != "" {
				toks = append(toks, cur)
				cur = ""
			}
		default:
			cur += string(c)
		}
	}
	if cur != "" {
		toks = append(toks, cur)
	}
	return toks
}

var dumpCounter int
