package main

// SMT term DAG with constant folding. Sorts: Bool, (_ BitVec N), Int.

import (
	"fmt"
	"math/big"
	"strings"
	"sync/atomic"
)

type SortKind uint8

const (
	KBool SortKind = iota
	KBV
	KInt
)

type Sort struct {
	K SortKind
	W int
}

func (s Sort) String() string {
	switch s.K {
	case KBool:
		return "Bool"
	case KInt:
		return "Int"
	}
	return fmt.Sprintf("(_ BitVec %d)", s.W)
}

var SBool = Sort{KBool, 0}
var SInt = Sort{KInt, 0}

func SBV(w int) Sort { return Sort{KBV, w} }

type Term struct {
	Op   string
	Args []*Term
	S    Sort
	C    *big.Int // constant payload (Bool: 0/1; BV: unsigned value; Int: value)
	Name string   // var / uf name
	P1   int
	P2   int
	id   uint64
}

var termCounter uint64

func newTerm(op string, s Sort, args ...*Term) *Term {
	if op == "const" {
		// constants are printed as literals and never need an id; skipping the
		// shared counter avoids cache-line contention between workers
		return &Term{Op: op, S: s}
	}
	return &Term{Op: op, Args: args, S: s, id: atomic.AddUint64(&termCounter, 1)}
}

func (t *Term) IsConst() bool { return t.Op == "const" }

var (
	TTrue  = &Term{Op: "const", S: SBool, C: big.NewInt(1), id: 1}
	TFalse = &Term{Op: "const", S: SBool, C: big.NewInt(0), id: 2}
)

func init() { termCounter = 10 }

func BoolC(b bool) *Term {
	if b {
		return TTrue
	}
	return TFalse
}

func (t *Term) IsTrue() bool  { return t.Op == "const" && t.S.K == KBool && t.C.Sign() != 0 }
func (t *Term) IsFalse() bool { return t.Op == "const" && t.S.K == KBool && t.C.Sign() == 0 }

var one = big.NewInt(1)

func mask(w int) *big.Int {
	m := new(big.Int).Lsh(one, uint(w))
	return m.Sub(m, one)
}

func normBV(v *big.Int, w int) *big.Int {
	r := new(big.Int).And(v, mask(w)) // And on negative big.Int uses two's complement semantics
	return r
}

func BVC(w int, v *big.Int) *Term {
	t := newTerm("const", SBV(w))
	t.C = normBV(v, w)
	return t
}
func BVU(w int, v uint64) *Term { return BVC(w, new(big.Int).SetUint64(v)) }
func BVI(w int, v int64) *Term  { return BVC(w, big.NewInt(v)) }
func IntC(v *big.Int) *Term {
	t := newTerm("const", SInt)
	t.C = new(big.Int).Set(v)
	return t
}
func IntI(v int64) *Term { return IntC(big.NewInt(v)) }

func Var(name string, s Sort) *Term {
	t := newTerm("var", s)
	t.Name = name
	return t
}

// signed value of a BV constant
func (t *Term) Signed() *big.Int {
	if t.S.K != KBV {
		return t.C
	}
	if t.C.Bit(t.S.W-1) == 1 {
		return new(big.Int).Sub(t.C, new(big.Int).Lsh(one, uint(t.S.W)))
	}
	return t.C
}

func (t *Term) Uint64() uint64 { return t.C.Uint64() }
func (t *Term) Int64() int64   { return t.Signed().Int64() }

// ---------- Bool ----------

func Not(a *Term) *Term {
	if a.IsConst() {
		return BoolC(a.C.Sign() == 0)
	}
	if a.Op == "not" {
		return a.Args[0]
	}
	return newTerm("not", SBool, a)
}

func And(a, b *Term) *Term {
	if a.IsConst() {
		if a.IsTrue() {
			return b
		}
		return TFalse
	}
	if b.IsConst() {
		if b.IsTrue() {
			return a
		}
		return TFalse
	}
	if a == b {
		return a
	}
	return newTerm("and", SBool, a, b)
}

func Or(a, b *Term) *Term {
	if a.IsConst() {
		if a.IsTrue() {
			return TTrue
		}
		return b
	}
	if b.IsConst() {
		if b.IsTrue() {
			return TTrue
		}
		return a
	}
	if a == b {
		return a
	}
	return newTerm("or", SBool, a, b)
}

func AndN(ts ...*Term) *Term {
	r := TTrue
	for _, t := range ts {
		r = And(r, t)
	}
	return r
}

func Ite(c, a, b *Term) *Term {
	if c.IsConst() {
		if c.IsTrue() {
			return a
		}
		return b
	}
	if a == b {
		return a
	}
	if a.S != b.S {
		panic(fmt.Sprintf("ite sort mismatch %v %v", a.S, b.S))
	}
	if a.IsConst() && b.IsConst() {
		if a.C.Cmp(b.C) == 0 {
			return a
		}
		if a.S.K == KBool {
			if a.IsTrue() {
				return c
			}
			return Not(c)
		}
	}
	return newTerm("ite", a.S, c, a, b)
}

func Eq(a, b *Term) *Term {
	if a == b {
		return TTrue
	}
	if a.S != b.S {
		panic(fmt.Sprintf("eq sort mismatch %v %v (%s / %s)", a.S, b.S, a.Op, b.Op))
	}
	if a.IsConst() && b.IsConst() {
		return BoolC(a.C.Cmp(b.C) == 0)
	}
	if a.S.K == KBool {
		if a.IsConst() {
			if a.IsTrue() {
				return b
			}
			return Not(b)
		}
		if b.IsConst() {
			if b.IsTrue() {
				return a
			}
			return Not(a)
		}
	}
	// ite(c, k1, k2) == k  with constants
	if b.IsConst() && a.Op == "ite" && a.Args[1].IsConst() && a.Args[2].IsConst() {
		e1 := a.Args[1].C.Cmp(b.C) == 0
		e2 := a.Args[2].C.Cmp(b.C) == 0
		switch {
		case e1 && e2:
			return TTrue
		case e1:
			return a.Args[0]
		case e2:
			return Not(a.Args[0])
		default:
			return TFalse
		}
	}
	if a.IsConst() && b.Op == "ite" {
		return Eq(b, a)
	}
	return newTerm("=", SBool, a, b)
}

// ---------- BV ----------

func bvBin(op string, a, b *Term) *Term {
	if a.S != b.S || a.S.K != KBV {
		panic(fmt.Sprintf("bv op %s sort mismatch %v %v", op, a.S, b.S))
	}
	w := a.S.W
	// narrow unsigned division/remainder of a zero-extended value by a small
	// constant: urem(zext(x), c) = zext(urem(x, c)) when c fits x's width
	if (op == "bvudiv" || op == "bvurem") && a.Op == "zext" && b.IsConst() && b.C.Sign() > 0 {
		in := a.Args[0]
		if b.C.BitLen() <= in.S.W {
			return ZExt(bvBin(op, in, BVC(in.S.W, b.C)), w)
		}
	}
	if a.IsConst() && b.IsConst() {
		x, y := a.C, b.C
		r := new(big.Int)
		switch op {
		case "bvadd":
			r.Add(x, y)
		case "bvsub":
			r.Sub(x, y)
		case "bvmul":
			r.Mul(x, y)
		case "bvand":
			r.And(x, y)
		case "bvor":
			r.Or(x, y)
		case "bvxor":
			r.Xor(x, y)
		case "bvudiv":
			if y.Sign() == 0 {
				r.Set(mask(w))
			} else {
				r.Quo(x, y)
			}
		case "bvurem":
			if y.Sign() == 0 {
				r.Set(x)
			} else {
				r.Rem(x, y)
			}
		case "bvsdiv":
			sx, sy := a.Signed(), b.Signed()
			if sy.Sign() == 0 {
				if sx.Sign() < 0 {
					r.SetInt64(1)
				} else {
					r.Set(mask(w))
				}
			} else {
				r.Quo(sx, sy)
			}
		case "bvsrem":
			sx, sy := a.Signed(), b.Signed()
			if sy.Sign() == 0 {
				r.Set(sx)
			} else {
				r.Rem(sx, sy)
			}
		case "bvshl":
			if y.Cmp(big.NewInt(int64(w))) >= 0 {
				r.SetInt64(0)
			} else {
				r.Lsh(x, uint(y.Uint64()))
			}
		case "bvlshr":
			if y.Cmp(big.NewInt(int64(w))) >= 0 {
				r.SetInt64(0)
			} else {
				r.Rsh(x, uint(y.Uint64()))
			}
		case "bvashr":
			sx := a.Signed()
			if y.Cmp(big.NewInt(int64(w))) >= 0 {
				if sx.Sign() < 0 {
					r.SetInt64(-1)
				} else {
					r.SetInt64(0)
				}
			} else {
				r.Rsh(sx, uint(y.Uint64()))
			}
		default:
			panic("bvBin " + op)
		}
		return BVC(w, r)
	}
	// light identities
	switch op {
	case "bvadd", "bvor", "bvxor":
		if a.IsConst() && a.C.Sign() == 0 {
			return b
		}
		if b.IsConst() && b.C.Sign() == 0 {
			return a
		}
	case "bvsub", "bvshl", "bvlshr", "bvashr":
		if b.IsConst() && b.C.Sign() == 0 {
			return a
		}
	case "bvand":
		if a.IsConst() && a.C.Sign() == 0 {
			return a
		}
		if b.IsConst() && b.C.Sign() == 0 {
			return b
		}
		if b.IsConst() && b.C.Cmp(mask(w)) == 0 {
			return a
		}
		if a.IsConst() && a.C.Cmp(mask(w)) == 0 {
			return b
		}
	case "bvmul":
		if a.IsConst() && a.C.Cmp(one) == 0 {
			return b
		}
		if b.IsConst() && b.C.Cmp(one) == 0 {
			return a
		}
		if (a.IsConst() && a.C.Sign() == 0) || (b.IsConst() && b.C.Sign() == 0) {
			return BVU(w, 0)
		}
	case "bvudiv", "bvsdiv":
		if b.IsConst() && b.C.Cmp(one) == 0 {
			return a
		}
	}
	return newTerm(op, a.S, a, b)
}

func BVAdd(a, b *Term) *Term  { return bvBin("bvadd", a, b) }
func BVSub(a, b *Term) *Term  { return bvBin("bvsub", a, b) }
func BVMul(a, b *Term) *Term  { return bvBin("bvmul", a, b) }
func BVAnd(a, b *Term) *Term  { return bvBin("bvand", a, b) }
func BVOr(a, b *Term) *Term   { return bvBin("bvor", a, b) }
func BVXor(a, b *Term) *Term  { return bvBin("bvxor", a, b) }
func BVUDiv(a, b *Term) *Term { return bvBin("bvudiv", a, b) }
func BVURem(a, b *Term) *Term { return bvBin("bvurem", a, b) }
func BVSDiv(a, b *Term) *Term { return bvBin("bvsdiv", a, b) }
func BVSRem(a, b *Term) *Term { return bvBin("bvsrem", a, b) }
func BVShl(a, b *Term) *Term  { return bvBin("bvshl", a, b) }
func BVLshr(a, b *Term) *Term { return bvBin("bvlshr", a, b) }
func BVAshr(a, b *Term) *Term { return bvBin("bvashr", a, b) }

func BVNot(a *Term) *Term {
	if a.IsConst() {
		return BVC(a.S.W, new(big.Int).Xor(a.C, mask(a.S.W)))
	}
	return newTerm("bvnot", a.S, a)
}
func BVNeg(a *Term) *Term {
	if a.IsConst() {
		return BVC(a.S.W, new(big.Int).Neg(a.C))
	}
	return newTerm("bvneg", a.S, a)
}

func bvCmp(op string, a, b *Term) *Term {
	if a.S != b.S || a.S.K != KBV {
		panic(fmt.Sprintf("bv cmp %s sort mismatch %v %v", op, a.S, b.S))
	}
	if a.IsConst() && b.IsConst() {
		var c int
		if op[2] == 's' {
			c = a.Signed().Cmp(b.Signed())
		} else {
			c = a.C.Cmp(b.C)
		}
		switch op[3:] {
		case "lt":
			return BoolC(c < 0)
		case "le":
			return BoolC(c <= 0)
		}
	}
	if a == b {
		return BoolC(op[3:] == "le")
	}
	// x % c < d is true whenever c <= d (c > 0): spares the solver a divider
	if op[2] == 'u' && a.Op == "bvurem" && a.Args[1].IsConst() && a.Args[1].C.Sign() > 0 && b.IsConst() {
		c := a.Args[1].C.Cmp(b.C)
		if (op == "bvult" && c <= 0) || (op == "bvule" && new(big.Int).Sub(a.Args[1].C, one).Cmp(b.C) <= 0) {
			return TTrue
		}
	}
	// zero-extended narrow value against a constant beyond its range
	if op[2] == 'u' && a.Op == "zext" && b.IsConst() && b.C.BitLen() > a.Args[0].S.W {
		return TTrue
	}
	return newTerm(op, SBool, a, b)
}
func BVUlt(a, b *Term) *Term { return bvCmp("bvult", a, b) }
func BVUle(a, b *Term) *Term { return bvCmp("bvule", a, b) }
func BVSlt(a, b *Term) *Term { return bvCmp("bvslt", a, b) }
func BVSle(a, b *Term) *Term { return bvCmp("bvsle", a, b) }

func Extract(hi, lo int, a *Term) *Term {
	if lo == 0 && hi == a.S.W-1 {
		return a
	}
	w := hi - lo + 1
	if a.IsConst() {
		return BVC(w, new(big.Int).Rsh(a.C, uint(lo)))
	}
	if a.Op == "zext" || a.Op == "sext" {
		in := a.Args[0]
		if hi < in.S.W {
			return Extract(hi, lo, in)
		}
	}
	if a.Op == "concat" {
		lw := a.Args[1].S.W
		if hi < lw {
			return Extract(hi, lo, a.Args[1])
		}
		if lo >= lw {
			return Extract(hi-lw, lo-lw, a.Args[0])
		}
	}
	if a.Op == "extract" {
		return Extract(hi+a.P2, lo+a.P2, a.Args[0])
	}
	t := newTerm("extract", SBV(w), a)
	t.P1, t.P2 = hi, lo
	return t
}

func ZExt(a *Term, w int) *Term {
	if w == a.S.W {
		return a
	}
	if w < a.S.W {
		return Extract(w-1, 0, a)
	}
	if a.IsConst() {
		return BVC(w, a.C)
	}
	t := newTerm("zext", SBV(w), a)
	t.P1 = w - a.S.W
	return t
}

func SExt(a *Term, w int) *Term {
	if w == a.S.W {
		return a
	}
	if w < a.S.W {
		return Extract(w-1, 0, a)
	}
	if a.IsConst() {
		return BVC(w, a.Signed())
	}
	t := newTerm("sext", SBV(w), a)
	t.P1 = w - a.S.W
	return t
}

func Concat(hi, lo *Term) *Term {
	if hi.IsConst() && lo.IsConst() {
		v := new(big.Int).Lsh(hi.C, uint(lo.S.W))
		v.Or(v, lo.C)
		return BVC(hi.S.W+lo.S.W, v)
	}
	// adjacent slices of one value: concat(x[h1:l1], x[l1-1:l2]) = x[h1:l2]
	if hi.Op == "extract" && lo.Op == "extract" && hi.Args[0] == lo.Args[0] && hi.P2 == lo.P1+1 {
		return Extract(hi.P1, lo.P2, hi.Args[0])
	}
	if hi.Op == "extract" && hi.P2 == lo.S.W && hi.Args[0] == lo {
		// concat(x[h:w], x) where x is the low part already whole — not a slice pair
	}
	return newTerm("concat", SBV(hi.S.W+lo.S.W), hi, lo)
}

// ---------- Int ----------

func intBin(op string, a, b *Term) *Term {
	if a.S.K != KInt || b.S.K != KInt {
		panic("int op on non-int " + op)
	}
	if a.IsConst() && b.IsConst() {
		r := new(big.Int)
		switch op {
		case "+":
			r.Add(a.C, b.C)
		case "-":
			r.Sub(a.C, b.C)
		case "*":
			r.Mul(a.C, b.C)
		case "div": // SMT-LIB Euclidean
			if b.C.Sign() == 0 {
				return newTerm(op, SInt, a, b)
			}
			r.Div(a.C, b.C)
		case "mod":
			if b.C.Sign() == 0 {
				return newTerm(op, SInt, a, b)
			}
			r.Mod(a.C, b.C)
		}
		return IntC(r)
	}
	switch op {
	case "+":
		if a.IsConst() && a.C.Sign() == 0 {
			return b
		}
		if b.IsConst() && b.C.Sign() == 0 {
			return a
		}
	case "-":
		if b.IsConst() && b.C.Sign() == 0 {
			return a
		}
	case "*":
		if a.IsConst() && a.C.Cmp(one) == 0 {
			return b
		}
		if b.IsConst() && b.C.Cmp(one) == 0 {
			return a
		}
		if (a.IsConst() && a.C.Sign() == 0) || (b.IsConst() && b.C.Sign() == 0) {
			return IntI(0)
		}
	}
	return newTerm(op, SInt, a, b)
}
func IAdd(a, b *Term) *Term { return intBin("+", a, b) }
func ISub(a, b *Term) *Term { return intBin("-", a, b) }
func IMul(a, b *Term) *Term { return intBin("*", a, b) }
func IDiv(a, b *Term) *Term { return intBin("div", a, b) } // Euclidean
func IMod(a, b *Term) *Term { return intBin("mod", a, b) } // Euclidean
func INeg(a *Term) *Term    { return ISub(IntI(0), a) }

func intCmp(op string, a, b *Term) *Term {
	if a.IsConst() && b.IsConst() {
		c := a.C.Cmp(b.C)
		switch op {
		case "<":
			return BoolC(c < 0)
		case "<=":
			return BoolC(c <= 0)
		}
	}
	return newTerm(op, SBool, a, b)
}
func ILt(a, b *Term) *Term { return intCmp("<", a, b) }
func ILe(a, b *Term) *Term { return intCmp("<=", a, b) }

// unsigned BV -> Int
func BV2Nat(a *Term) *Term {
	if a.IsConst() {
		return IntC(a.C)
	}
	return newTerm("bv2nat", SInt, a)
}

// signed BV -> Int
func BV2Int(a *Term) *Term {
	if a.IsConst() {
		return IntC(a.Signed())
	}
	w := a.S.W
	n := BV2Nat(a)
	return Ite(BVSlt(a, BVU(w, 0)), ISub(n, IntC(new(big.Int).Lsh(one, uint(w)))), n)
}

// Int -> BV (mod 2^w)
func Int2BV(a *Term, w int) *Term {
	if a.IsConst() {
		return BVC(w, a.C)
	}
	if a.Op == "bv2nat" && a.Args[0].S.W == w {
		return a.Args[0]
	}
	t := newTerm("int2bv", SBV(w), a)
	t.P1 = w
	return t
}

// ---------- UF ----------

type UFDecl struct {
	Name string
	Args []Sort
	Ret  Sort
}

func App(d *UFDecl, args ...*Term) *Term {
	t := newTerm("app", d.Ret, args...)
	t.Name = d.Name
	return t
}

// ---------- printing ----------

func constStr(t *Term) string {
	switch t.S.K {
	case KBool:
		if t.C.Sign() != 0 {
			return "true"
		}
		return "false"
	case KInt:
		if t.C.Sign() < 0 {
			return "(- " + new(big.Int).Neg(t.C).String() + ")"
		}
		return t.C.String()
	}
	if t.S.W%4 == 0 {
		s := t.C.Text(16)
		return "#x" + strings.Repeat("0", t.S.W/4-len(s)) + s
	}
	s := t.C.Text(2)
	return "#b" + strings.Repeat("0", t.S.W-len(s)) + s
}

func (t *Term) ref() string {
	switch t.Op {
	case "const":
		return constStr(t)
	case "var":
		return t.Name
	}
	return fmt.Sprintf("t%d", t.id)
}

func (t *Term) body() string {
	var sb strings.Builder
	if t.Op == "hexdigit" {
		n := t.Args[0].ref()
		return "(ite (bvult " + n + " #x0a) (bvadd " + n + " #x30) (bvadd " + n + " #x57))"
	}
	sb.WriteByte('(')
	switch t.Op {
	case "extract":
		fmt.Fprintf(&sb, "(_ extract %d %d)", t.P1, t.P2)
	case "zext":
		fmt.Fprintf(&sb, "(_ zero_extend %d)", t.P1)
	case "sext":
		fmt.Fprintf(&sb, "(_ sign_extend %d)", t.P1)
	case "int2bv":
		fmt.Fprintf(&sb, "(_ int2bv %d)", t.P1)
	case "app":
		sb.WriteString(t.Name)
	default:
		sb.WriteString(t.Op)
	}
	for _, a := range t.Args {
		sb.WriteByte(' ')
		sb.WriteString(a.ref())
	}
	sb.WriteByte(')')
	return sb.String()
}

// Short human-readable rendering for debugging (bounded depth).
func (t *Term) String() string { return t.str(4) }
func (t *Term) str(d int) string {
	switch t.Op {
	case "const":
		if t.S.K == KBV {
			return t.C.String()
		}
		return constStr(t)
	case "var":
		return t.Name
	}
	if d == 0 {
		return "…"
	}
	parts := []string{t.Op}
	if t.Op == "app" {
		parts[0] = t.Name
	}
	for _, a := range t.Args {
		parts = append(parts, a.str(d-1))
	}
	return "(" + strings.Join(parts, " ") + ")"
}
