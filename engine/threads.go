package main

// Engine threads (goroutines of the interpreted program), baton-passing
// scheduler whose choices are decisions of the path, channels and select.

import (
	"fmt"
	"go/types"

	"golang.org/x/tools/go/ssa"
)

type Thread struct {
	id      int
	p       *Path
	wake    chan struct{}
	done    bool
	started bool
	blocked func() bool // nil = runnable; otherwise runnable when it returns true
	top     *frame
	depth   int
	inInit  int
	name    string
	timer   bool // environment timer thread: may also never run
	vc      vclock
	cancelled bool
}

type waiter struct {
	th     *Thread
	isSend bool
	val    Value
	ok     bool
	done   bool
	sel    *selState
	caseIx int
	closedPanic bool
}

type selState struct{ fired *waiter }

type ChanV struct {
	buf    []Value
	cap    int
	closed bool
	recvq  []*waiter
	sendq  []*waiter
	elemT  types.Type
	env    bool // environment channel (timer/ticker): receive is always possible
	envGen func(p *Path) Value
	id     int
}

func (w *waiter) active() bool { return !w.done && (w.sel == nil || w.sel.fired == nil) }

func (p *Path) newChan(capacity int, elem types.Type) *ChanV {
	return &ChanV{cap: capacity, elemT: elem}
}

func (p *Path) multi() bool { return len(p.threads) > 1 }

// spawn creates a new engine thread running fn(args).
func (p *Path) spawn(fr *frame, fn Value, args []Value) *Thread {
	if fr.th.inInit > 0 {
		p.warn("goroutine started during package init ignored")
		return nil
	}
	if len(p.threads) >= p.P.cfg.MaxThreads {
		panic(unsupported("too many goroutines"))
	}
	th := &Thread{id: len(p.threads), p: p, wake: make(chan struct{}, 1)}
	p.threads = append(p.threads, th)
	p.raceSpawn(fr.th, th)
	p.wg.Add(1)
	go p.threadMain(th, fn, args)
	// spawning is a visible operation
	p.preemptPoint(fr.th)
	return th
}

func (p *Path) threadMain(th *Thread, fn Value, args []Value) {
	defer p.wg.Done()
	defer func() {
		r := recover()
		th.done = true
		if r == nil {
			return
		}
		switch e := r.(type) {
		case abortSig:
			return
		case unsupportedErr:
			p.finishFromPanic(&Outcome{Kind: "unsupported", Msg: e.msg})
		case *goPanic:
			// uncaught panic in a goroutine crashes the program
			p.recordPanic(th, e)
			p.finishFromPanic(&Outcome{Kind: "violated", Msg: "uncaught panic: " + e.String()})
		default:
			p.finishFromPanic(&Outcome{Kind: "engine-error", Msg: fmt.Sprint(r) + "\n" + string(stackTrace())})
		}
	}()
	<-th.wake
	if p.dead {
		panic(abortSig{})
	}
	th.started = true
	f := &frame{p: p, th: th, info: &fnInfo{name: "<go>"}}
	p.call(f, fn, args)
	th.done = true
	if th.id == 0 {
		if p.wantSample && !p.concreteMode {
			if r, m := p.S.Check(nil, p.nondetVars()); r == "sat" {
				p.sampleVals = p.replayValues(m)
			}
		}
		p.finish(&Outcome{Kind: "ok"})
	}
	// hand over to another thread
	p.schedule(th, true)
}

func (p *Path) finishFromPanic(o *Outcome) {
	p.finOnce.Do(func() {
		p.outcome = o
		p.dead = true
		close(p.finished)
	})
}

func (p *Path) recordPanic(th *Thread, e *goPanic) {
	r, m := p.S.Check(nil, p.nondetVars())
	if r == "unsat" {
		return
	}
	p.violations = append(p.violations, &Violation{Kind: "panic", Msg: e.String(), Site: e.kind, Values: p.replayValues(m), Prefix: append([]int{}, p.prefix...), Unknown: r != "sat", Stack: e.stack})
}

func (p *Path) runnable(t *Thread) bool {
	if t.done || t.cancelled {
		return false
	}
	return t.blocked == nil || t.blocked()
}

// schedule picks the next thread to run. If mustSwitch, self cannot continue
// (blocked or finished).
func (p *Path) schedule(self *Thread, mustSwitch bool) {
	if p.spec > 0 {
		panic(specAbort{"scheduling point"})
	}
	var cands []*Thread
	if !mustSwitch {
		cands = append(cands, self)
	}
	allowPreempt := mustSwitch || p.preempts < p.P.cfg.Preempt
	if allowPreempt {
		for _, t := range p.threads {
			if t != self && p.runnable(t) {
				cands = append(cands, t)
			}
		}
	}
	if len(cands) == 0 {
		if self.done && self.id != 0 {
			// nobody can run; main is blocked forever
			p.deadlock(self)
		}
		if mustSwitch {
			p.deadlock(self)
		}
		return
	}
	next := cands[0]
	if len(cands) > 1 && !(mustSwitch && p.P.cfg.SchedFIFO) {
		alts := make([]*Term, len(cands))
		next = cands[p.choose(alts, "sched")]
	}
	if next == self {
		return
	}
	if !mustSwitch {
		p.preempts++
	}
	p.cur = next
	next.wake <- struct{}{}
	if self.done {
		return
	}
	<-self.wake
	if p.dead {
		panic(abortSig{})
	}
}

func (p *Path) deadlock(self *Thread) {
	if p.envExhausted {
		// a goroutine waits on a timer/ticker whose modelled number of firings
		// (max_env_fires) is used up: the bound of the environment model was
		// reached, not a deadlock of the program
		if self.done {
			p.finishFromPanic(&Outcome{Kind: "pruned", Msg: "environment timer bound reached"})
			return
		}
		p.finish(&Outcome{Kind: "pruned", Msg: "environment timer bound reached"})
	}
	// timers that never fire are fine; a deadlock is all threads blocked.
	r, m := p.S.Check(nil, p.nondetVars())
	if r != "unsat" {
		desc := ""
		for _, t := range p.threads {
			if !t.done && t.top != nil {
				desc += fmt.Sprintf("[t%d in %s] ", t.id, t.top.info.name)
			}
		}
		p.violations = append(p.violations, &Violation{Kind: "deadlock", Msg: "all goroutines blocked " + desc, Site: "deadlock", Values: p.replayValues(m), Prefix: append([]int{}, p.prefix...), Unknown: r != "sat"})
	}
	if self.done {
		p.finishFromPanic(&Outcome{Kind: "deadlock", Msg: "all goroutines blocked"})
		return
	}
	p.finish(&Outcome{Kind: "deadlock", Msg: "all goroutines blocked"})
}

// preemptPoint is called before a visible operation.
func (p *Path) preemptPoint(self *Thread) {
	if !p.multi() || self.inInit > 0 {
		return
	}
	p.schedule(self, false)
}

// block parks the current thread until cond() holds.
func (p *Path) block(self *Thread, cond func() bool) {
	if cond() {
		return
	}
	self.blocked = cond
	for !cond() {
		p.schedule(self, true)
	}
	self.blocked = nil
}

// memAccess is called on loads/stores through pointers; a preemption point
// when the executing function is configured for memory-level interleaving.
func (p *Path) memAccess(fr *frame, cell *Value, write bool) {
	if p.P.cfg.Race {
		p.raceAccess(fr, cell, write, "a variable or field")
	}
	if fr.info != nil && fr.info.preemptMem && p.multi() {
		p.preemptPoint(fr.th)
	}
}

// ---- channels ----

func firstActive(q []*waiter) *waiter {
	for _, w := range q {
		if w.active() {
			return w
		}
	}
	return nil
}

func fire(w *waiter) {
	w.done = true
	if w.sel != nil {
		w.sel.fired = w
	}
}

func prune(q []*waiter) []*waiter {
	var r []*waiter
	for _, w := range q {
		if w.active() {
			r = append(r, w)
		}
	}
	return r
}

func (c *ChanV) canSend() bool {
	return c.closed || firstActive(c.recvq) != nil || len(c.buf) < c.cap
}
func (c *ChanV) canRecv(p *Path) bool {
	if c.env {
		return p.envFires[c] < p.P.cfg.MaxEnvFires
	}
	return len(c.buf) > 0 || firstActive(c.sendq) != nil || c.closed
}

func (p *Path) doSend(c *ChanV, v Value) {
	p.raceRelease(p.cur, c)
	if c.closed {
		panic(&goPanic{kind: "closed-chan", msg: "send on closed channel"})
	}
	if w := firstActive(c.recvq); w != nil {
		w.val, w.ok = v, true
		fire(w)
		c.recvq = prune(c.recvq)
		return
	}
	c.buf = append(c.buf, v)
}

func (p *Path) doRecv(c *ChanV) (Value, bool) {
	p.raceAcquire(p.cur, c)
	if c.env {
		p.envFires[c]++
		return c.envGen(p), true
	}
	if len(c.buf) > 0 {
		v := c.buf[0]
		c.buf = c.buf[1:]
		if w := firstActive(c.sendq); w != nil {
			c.buf = append(c.buf, w.val)
			fire(w)
			c.sendq = prune(c.sendq)
		}
		return v, true
	}
	if w := firstActive(c.sendq); w != nil {
		fire(w)
		c.sendq = prune(c.sendq)
		return w.val, true
	}
	if c.closed {
		return zero(c.elemT), false
	}
	panic("doRecv on non-ready channel")
}

func (p *Path) chanSend(fr *frame, cv Value, v Value) {
	c, _ := cv.(*ChanV)
	self := fr.th
	p.preemptPoint(self)
	if c == nil {
		p.block(self, func() bool { return false })
		return
	}
	v = copyVal(v)
	p.raceRelease(self, c)
	if c.canSend() {
		p.doSend(c, v)
		return
	}
	w := &waiter{th: self, isSend: true, val: v}
	c.sendq = append(c.sendq, w)
	p.block(self, func() bool { return w.done })
	if w.closedPanic {
		panic(&goPanic{kind: "closed-chan", msg: "send on closed channel"})
	}
}

func (p *Path) chanRecv(fr *frame, cv Value) (Value, bool) {
	c, _ := cv.(*ChanV)
	self := fr.th
	p.preemptPoint(self)
	if c == nil {
		p.block(self, func() bool { return false })
		return nil, false
	}
	if c.canRecv(p) {
		return p.doRecv(c)
	}
	if c.env {
		// environment channel exhausted: blocks forever
		p.envExhausted = true
		p.block(self, func() bool { return false })
	}
	w := &waiter{th: self}
	c.recvq = append(c.recvq, w)
	p.block(self, func() bool { return w.done })
	p.raceAcquire(self, c)
	if !w.ok {
		return zero(c.elemT), false
	}
	return w.val, true
}

func (p *Path) chanClose(fr *frame, cv Value) {
	c, _ := cv.(*ChanV)
	if c == nil {
		panic(&goPanic{kind: "closed-chan", msg: "close of nil channel"})
	}
	p.preemptPoint(fr.th)
	if c.closed {
		panic(&goPanic{kind: "closed-chan", msg: "close of closed channel"})
	}
	p.raceRelease(fr.th, c)
	c.closed = true
	for _, w := range c.recvq {
		if w.active() {
			w.val, w.ok = zero(c.elemT), false
			fire(w)
		}
	}
	for _, w := range c.sendq {
		if w.active() {
			w.closedPanic = true
			fire(w)
		}
	}
	c.recvq, c.sendq = nil, nil
}

func (p *Path) selectOp(fr *frame, in *ssa.Select) Value {
	self := fr.th
	p.preemptPoint(self)
	type cs struct {
		c    *ChanV
		send bool
		val  Value
	}
	cases := make([]cs, len(in.States))
	for i, st := range in.States {
		c, _ := fr.get(st.Chan).(*ChanV)
		cases[i] = cs{c: c, send: st.Dir == types.SendOnly}
		if st.Send != nil {
			cases[i].val = copyVal(fr.get(st.Send))
		}
	}
	result := func(chosen int, rv Value, rok bool) Value {
		r := Tuple{BVI(64, int64(chosen)), BoolC(rok)}
		for i, st := range in.States {
			if st.Dir == types.RecvOnly {
				if i == chosen && rok {
					r = append(r, rv)
				} else {
					r = append(r, zero(st.Chan.Type().Underlying().(*types.Chan).Elem()))
				}
			}
		}
		return r
	}
	var ready []int
	for i, c := range cases {
		if c.c == nil {
			continue
		}
		if c.send && c.c.canSend() || !c.send && c.c.canRecv(p) {
			ready = append(ready, i)
		}
	}
	if len(ready) > 0 {
		ix := ready[0]
		if len(ready) > 1 {
			ix = ready[p.choose(make([]*Term, len(ready)), "select")]
		}
		c := cases[ix]
		if c.send {
			p.doSend(c.c, c.val)
			return result(ix, nil, false)
		}
		v, ok := p.doRecv(c.c)
		return result(ix, v, ok)
	}
	if !in.Blocking {
		return result(-1, nil, false)
	}
	st := &selState{}
	var ws []*waiter
	for i, c := range cases {
		if c.c == nil {
			continue
		}
		if c.c.env && !c.send {
			p.envExhausted = true
		}
		w := &waiter{th: self, isSend: c.send, val: c.val, sel: st, caseIx: i}
		ws = append(ws, w)
		if c.send {
			p.raceRelease(self, c.c)
			c.c.sendq = append(c.c.sendq, w)
		} else {
			c.c.recvq = append(c.c.recvq, w)
		}
	}
	p.block(self, func() bool { return st.fired != nil })
	w := st.fired
	for _, c := range cases {
		if c.c != nil {
			c.c.recvq = prune(c.c.recvq)
			c.c.sendq = prune(c.c.sendq)
		}
	}
	if w.isSend {
		if w.closedPanic {
			panic(&goPanic{kind: "closed-chan", msg: "send on closed channel"})
		}
		return result(w.caseIx, nil, false)
	}
	p.raceAcquire(self, cases[w.caseIx].c)
	return result(w.caseIx, w.val, w.ok)
}
