package main

import (
	"fmt"
	"go/types"
	"math/big"
	"strings"

	"golang.org/x/tools/go/ssa"
)

type Value interface{}

type Struct []Value
type Array []Value
type SliceV []Value
type Tuple []Value
type FloatV float64
type NilFunc struct{}

// StrV: immutable string; symbolic when B != nil (len(B) is the concrete length).
type StrV struct {
	S string
	B []*Term
	// Tok, when set, says the whole string is an injective rendering of
	// this term: two such strings are equal exactly when the terms are
	Tok *Term
}

type Iface struct {
	T types.Type
	V Value
}

type Closure struct {
	Fn  *ssa.Function
	Env []Value
}

// BigVal is the cell content of a math/big.Int: a mathematical integer term.
type BigVal struct{ T *Term }

// Opaque is the cell content of an intrinsic-modelled struct type.
type Opaque struct {
	Kind string
	T    *Term
	X    interface{}
}

type UnsafePtr struct{ P Value }

// SymPtr: pointer to element idx (symbolic) of a window of scalar cells.
type SymPtr struct {
	Elems []Value
	Idx   *Term // BV64
}

type MapEntry struct {
	K, V Value
}
type MapV struct {
	Entries []*MapEntry
	KT, VT  types.Type
}

func (s StrV) Len() int {
	if s.B != nil {
		return len(s.B)
	}
	return len(s.S)
}
func (s StrV) IsConc() bool { return s.B == nil }
func (s StrV) Byte(i int) *Term {
	if s.B != nil {
		return s.B[i]
	}
	return BVU(8, uint64(s.S[i]))
}
func (s StrV) Bytes() []*Term {
	if s.B != nil {
		return s.B
	}
	r := make([]*Term, len(s.S))
	for i := range r {
		r[i] = BVU(8, uint64(s.S[i]))
	}
	return r
}
func mkStr(bs []*Term) StrV {
	allc := true
	for _, b := range bs {
		if !b.IsConst() {
			allc = false
			break
		}
	}
	if allc {
		raw := make([]byte, len(bs))
		for i, b := range bs {
			raw[i] = byte(b.Uint64())
		}
		return StrV{S: string(raw)}
	}
	if bs == nil {
		bs = []*Term{}
	}
	return StrV{B: bs}
}
func (s StrV) Slice(lo, hi int) StrV {
	if s.B != nil {
		return mkStr(s.B[lo:hi])
	}
	return StrV{S: s.S[lo:hi]}
}
func strConcat(a, b StrV) StrV {
	if a.IsConc() && b.IsConc() {
		return StrV{S: a.S + b.S}
	}
	return mkStr(append(append([]*Term{}, a.Bytes()...), b.Bytes()...))
}
func (s StrV) String() string {
	if s.B == nil {
		return s.S
	}
	var sb strings.Builder
	for _, b := range s.B {
		if b.IsConst() {
			sb.WriteByte(byte(b.Uint64()))
		} else {
			sb.WriteString("<?>")
		}
	}
	return sb.String()
}

func strEq(a, b StrV) *Term {
	if a.Tok != nil && b.Tok != nil && a.Tok.S == b.Tok.S && a.Len() == b.Len() {
		return Eq(a.Tok, b.Tok)
	}
	if a.Len() != b.Len() {
		return TFalse
	}
	if a.IsConc() && b.IsConc() {
		return BoolC(a.S == b.S)
	}
	r := TTrue
	for i := 0; i < a.Len(); i++ {
		r = And(r, Eq(a.Byte(i), b.Byte(i)))
		if r.IsFalse() {
			return r
		}
	}
	return r
}

// a < b lexicographically
func strLt(a, b StrV) *Term {
	if a.IsConc() && b.IsConc() {
		return BoolC(a.S < b.S)
	}
	n := a.Len()
	if b.Len() < n {
		n = b.Len()
	}
	// result if all first n bytes equal:
	r := BoolC(a.Len() < b.Len())
	for i := n - 1; i >= 0; i-- {
		x, y := a.Byte(i), b.Byte(i)
		r = Ite(BVUlt(x, y), TTrue, Ite(Eq(x, y), r, TFalse))
	}
	return r
}

func basicWidth(b *types.Basic) (w int, signed bool) {
	switch b.Kind() {
	case types.Int8:
		return 8, true
	case types.Int16:
		return 16, true
	case types.Int32, types.UntypedRune:
		return 32, true
	case types.Int64, types.Int, types.UntypedInt:
		return 64, true
	case types.Uint8:
		return 8, false
	case types.Uint16:
		return 16, false
	case types.Uint32:
		return 32, false
	case types.Uint64, types.Uint, types.Uintptr:
		return 64, false
	}
	return 0, false
}

func isBigInt(t types.Type) bool {
	if n, ok := t.(*types.Named); ok {
		o := n.Obj()
		return o.Pkg() != nil && o.Pkg().Path() == "math/big" && o.Name() == "Int"
	}
	return false
}

func namedIs(t types.Type, pkg, name string) bool {
	if n, ok := t.(*types.Named); ok {
		o := n.Obj()
		return o.Pkg() != nil && o.Pkg().Path() == pkg && o.Name() == name
	}
	return false
}

func zero(t types.Type) Value {
	if isBigInt(t) {
		return BigVal{IntI(0)}
	}
	if z, ok := opaqueZero(t); ok {
		return z
	}
	switch u := t.Underlying().(type) {
	case *types.Basic:
		if u.Kind() == types.Bool || u.Kind() == types.UntypedBool {
			return TFalse
		}
		if w, _ := basicWidth(u); w > 0 {
			return BVU(w, 0)
		}
		switch u.Kind() {
		case types.String, types.UntypedString:
			return StrV{}
		case types.Float32, types.Float64, types.UntypedFloat:
			return FloatV(0)
		case types.UnsafePointer:
			return UnsafePtr{}
		case types.UntypedNil:
			return nil
		}
		panic(unsupported("zero of basic " + u.String()))
	case *types.Pointer:
		return (*Value)(nil)
	case *types.Slice:
		return SliceV(nil)
	case *types.Map:
		return (*MapV)(nil)
	case *types.Chan:
		return (*ChanV)(nil)
	case *types.Signature:
		return NilFunc{}
	case *types.Interface:
		return Iface{}
	case *types.Struct:
		s := make(Struct, u.NumFields())
		for i := range s {
			s[i] = zero(u.Field(i).Type())
		}
		return s
	case *types.Array:
		a := make(Array, u.Len())
		et := u.Elem()
		for i := range a {
			a[i] = zero(et)
		}
		return a
	case *types.Tuple:
		tu := make(Tuple, u.Len())
		for i := range tu {
			tu[i] = zero(u.At(i).Type())
		}
		return tu
	}
	panic(unsupported("zero of " + t.String()))
}

func copyVal(v Value) Value {
	switch x := v.(type) {
	case Struct:
		r := make(Struct, len(x))
		for i, e := range x {
			r[i] = copyVal(e)
		}
		return r
	case Array:
		r := make(Array, len(x))
		for i, e := range x {
			r[i] = copyVal(e)
		}
		return r
	}
	return v
}

func isNilValue(v Value) bool {
	switch x := v.(type) {
	case nil:
		return true
	case *Value:
		return x == nil
	case SliceV:
		return x == nil
	case *MapV:
		return x == nil
	case *ChanV:
		return x == nil
	case NilFunc:
		return true
	case Iface:
		return x.T == nil
	case UnsafePtr:
		return x.P == nil
	case *SymPtr:
		return x == nil
	}
	return false
}

// equals returns a Bool term for Go's == on two values of the same static type.
func equals(a, b Value) *Term {
	switch x := a.(type) {
	case nil:
		return BoolC(isNilValue(b))
	case *Term:
		y, ok := b.(*Term)
		if !ok {
			panic(unsupported(fmt.Sprintf("equals term vs %T", b)))
		}
		return Eq(x, y)
	case StrV:
		return strEq(x, b.(StrV))
	case FloatV:
		return BoolC(x == b.(FloatV))
	case *Value:
		y, ok := b.(*Value)
		if !ok {
			return BoolC(x == nil && isNilValue(b))
		}
		return BoolC(x == y)
	case Struct:
		y := b.(Struct)
		r := TTrue
		for i := range x {
			r = And(r, equals(x[i], y[i]))
		}
		return r
	case Array:
		y := b.(Array)
		r := TTrue
		for i := range x {
			r = And(r, equals(x[i], y[i]))
		}
		return r
	case Iface:
		y, ok := b.(Iface)
		if !ok {
			return BoolC(x.T == nil && isNilValue(b))
		}
		if x.T == nil || y.T == nil {
			return BoolC(x.T == nil && y.T == nil)
		}
		if !types.Identical(x.T, y.T) {
			return TFalse
		}
		return equals(x.V, y.V)
	case *MapV:
		if y, ok := b.(*MapV); ok {
			return BoolC(x == y)
		}
		return BoolC(x == nil && isNilValue(b))
	case *ChanV:
		if y, ok := b.(*ChanV); ok {
			return BoolC(x == y)
		}
		return BoolC(x == nil && isNilValue(b))
	case SliceV:
		return BoolC(x == nil && isNilValue(b)) // only nil comparison is legal
	case NilFunc:
		return BoolC(isNilValue(b))
	case *ssa.Function, *Closure, *ssa.Builtin:
		return BoolC(false && isNilValue(b)) // non-nil func vs nil
	case BigVal:
		return Eq(x.T, b.(BigVal).T)
	case Opaque:
		y := b.(Opaque)
		if x.T != nil && y.T != nil {
			return Eq(x.T, y.T)
		}
		return BoolC(x.X == y.X)
	case UnsafePtr:
		y := b.(UnsafePtr)
		return BoolC(x.P == y.P)
	}
	panic(unsupported(fmt.Sprintf("equals on %T", a)))
}

// describe renders a value for samples/debugging.
func describe(v Value, depth int) string {
	if depth < 0 {
		return "…"
	}
	switch x := v.(type) {
	case nil:
		return "nil"
	case *Term:
		return x.String()
	case StrV:
		return fmt.Sprintf("%q", x.String())
	case FloatV:
		return fmt.Sprint(float64(x))
	case *Value:
		if x == nil {
			return "nil"
		}
		return "&" + describe(*x, depth-1)
	case Struct:
		var p []string
		for _, e := range x {
			p = append(p, describe(e, depth-1))
		}
		return "{" + strings.Join(p, ",") + "}"
	case Array:
		var p []string
		for _, e := range x {
			p = append(p, describe(e, depth-1))
		}
		return "[" + strings.Join(p, ",") + "]"
	case SliceV:
		var p []string
		for _, e := range x {
			p = append(p, describe(e, depth-1))
		}
		return "[]{" + strings.Join(p, ",") + "}"
	case Iface:
		if x.T == nil {
			return "nil"
		}
		return x.T.String() + ":" + describe(x.V, depth-1)
	case BigVal:
		return "big(" + x.T.String() + ")"
	case Tuple:
		var p []string
		for _, e := range x {
			p = append(p, describe(e, depth-1))
		}
		return "(" + strings.Join(p, ",") + ")"
	}
	return fmt.Sprintf("%T", v)
}

func termOf(v Value) *Term {
	t, ok := v.(*Term)
	if !ok {
		panic(unsupported(fmt.Sprintf("expected scalar term, got %T", v)))
	}
	return t
}

func concInt(v Value) (int64, bool) {
	t, ok := v.(*Term)
	if !ok || !t.IsConst() {
		return 0, false
	}
	return t.Int64(), true
}

var _ = big.NewInt
