package gjkr

import (
	"math/big"

	bn256 "github.com/ethereum/go-ethereum/crypto/bn256/cloudflare"
	"github.com/ipfs/go-log/v2"
	"github.com/keep-network/keep-core/pkg/crypto/ephemeral"
	"github.com/keep-network/keep-core/pkg/protocol/group"
)

// symmetric channel between two members: authenticated, transparent
type vKey struct{}

func (vKey) Encrypt(p []byte) ([]byte, error) { return append([]byte{0xEE}, p...), nil }
func (vKey) Decrypt(c []byte) ([]byte, error) {
	if len(c) == 0 || c[0] != 0xEE {
		return nil, errVerif
	}
	return append([]byte{}, c[1:]...), nil
}

type vErrT struct{}

func (vErrT) Error() string { return "verif: cannot decrypt" }

var errVerif = vErrT{}

// the share transport (serialise, encrypt, decrypt, parse) is replaced by a
// side table keyed by the message slot: what arrives is what was sent
var vShareTable = map[*peerShares][2]*big.Int{}

func vAddShares(psm *PeerSharesMessage, receiverID group.MemberIndex, shareS, shareT *big.Int, key ephemeral.SymmetricKey) error {
	slot := &peerShares{}
	vShareTable[slot] = [2]*big.Int{shareS, shareT}
	psm.shares[receiverID] = slot
	return nil
}
func vDecryptShareS(psm *PeerSharesMessage, receiverID group.MemberIndex, key ephemeral.SymmetricKey) (*big.Int, error) {
	slot, ok := psm.shares[receiverID]
	if !ok {
		return nil, errVerif
	}
	return new(big.Int).Set(vShareTable[slot][0]), nil
}
func vDecryptShareT(psm *PeerSharesMessage, receiverID group.MemberIndex, key ephemeral.SymmetricKey) (*big.Int, error) {
	slot, ok := psm.shares[receiverID]
	if !ok {
		return nil, errVerif
	}
	return new(big.Int).Set(vShareTable[slot][1]), nil
}

// one corrupt member's behaviour
const (
	kHonest             = iota
	kSilentFromStart    // never sends shares and commitments
	kSilentAfterSharing // valid shares, then silence
	kBadShare           // a share that does not match its commitments, to one member
	kFalseShareAccusation
	kBadPoints // public key share points that do not match the shares
	kFalsePointsAccusation
	kBadShareThenSilent  // a wrong share to one member, then nothing more (two misbehaviours composed)
	kBadPointsThenSilent // wrong public key share points, then nothing more
)

type vRun struct {
	n, t    int
	corrupt group.MemberIndex // 0: nobody
	kind    int
	victim  group.MemberIndex // the honest member a bad share / false accusation is aimed at
	members []*vMemberRun
}

type vMemberRun struct {
	id      group.MemberIndex
	core    *memberCore
	stopped bool // a corrupt member that has gone silent
	cm      *CommittingMember
	cvm     *CommitmentsVerifyingMember
	sjm     *SharesJustifyingMember
	qm      *QualifiedMember
	sm      *SharingMember
	pjm     *PointsJustifyingMember
	rm      *RevealingMember
	rcm     *ReconstructingMember
	cbm     *CombiningMember
	result  *Result

	shares *PeerSharesMessage
	comm   *MemberCommitmentsMessage
	acc1   *SecretSharesAccusationsMessage
	points *MemberPublicKeySharePointsMessage
	acc2   *PointsAccusationsMessage
	keys   *MisbehavedEphemeralKeysMessage
}

// vFrom: the phase messages member m receives — from every other member that
// sent one and that m still regards as operating (what the per-state Receive
// admits under a consistent broadcast)
func vFrom[T any](r *vRun, m *vMemberRun, get func(*vMemberRun) T, has func(*vMemberRun) bool) []T {
	var out []T
	for _, o := range r.members {
		if o.id != m.id && has(o) && m.core.group.IsOperating(o.id) {
			out = append(out, get(o))
		}
	}
	return out
}

func (r *vRun) honest(m *vMemberRun) bool { return m.id != r.corrupt }

// vExecute drives the real phase functions of every member in protocol order.
func vExecute(n, t int, corrupt group.MemberIndex, kind int, victim group.MemberIndex) *vRun {
	r := &vRun{n: n, t: t, corrupt: corrupt, kind: kind, victim: victim}
	H := new(bn256.G1).ScalarBaseMult(big.NewInt(2))
	for i := 1; i <= n; i++ {
		core := &memberCore{log.Logger("verif"), group.MemberIndex(i), group.NewGroup(t, n), nil, newDkgEvidenceLog(), &protocolParameters{H: H}, "session"}
		skm := (&LocalMember{core}).InitializeEphemeralKeysGeneration().InitializeSymmetricKeyGeneration()
		for j := 1; j <= n; j++ {
			if j != i {
				skm.symmetricKeys[group.MemberIndex(j)] = vKey{}
				skm.ephemeralKeyPairs[group.MemberIndex(j)] = &ephemeral.KeyPair{PrivateKey: &ephemeral.PrivateKey{}, PublicKey: &ephemeral.PublicKey{}}
			}
		}
		r.members = append(r.members, &vMemberRun{id: group.MemberIndex(i), core: core, cm: skm.InitializeCommitting()})
	}
	for _, m := range r.members {
		for j := 1; j <= n; j++ {
			if group.MemberIndex(j) == m.id {
				continue
			}
			keys := map[group.MemberIndex]*ephemeral.PublicKey{}
			for k := 1; k <= n; k++ {
				if k != j {
					keys[group.MemberIndex(k)] = &ephemeral.PublicKey{}
				}
			}
			vAssert(m.core.evidenceLog.PutEphemeralMessage(&EphemeralPublicKeyMessage{senderID: group.MemberIndex(j), ephemeralPublicKeys: keys, sessionID: "session"}) == nil, "evidence log refused a first message")
		}
	}
	bad := func() *vMemberRun {
		if corrupt == 0 {
			return nil
		}
		return r.members[corrupt-1]
	}()
	if kind == kSilentFromStart {
		bad.stopped = true
	}
	running := func(m *vMemberRun) bool { return !m.stopped }
	// phase 3
	for _, m := range r.members {
		if !running(m) {
			continue
		}
		var err error
		m.shares, m.comm, err = m.cm.CalculateMembersSharesAndCommitments()
		vAssert(err == nil, "phase 3 failed")
	}
	if kind == kBadShare || kind == kBadShareThenSilent {
		slot := bad.shares.shares[victim]
		e := vShareTable[slot]
		delta := vBig(8)
		vAssume(delta.Sign() > 0 && delta.Cmp(bn256.Order) < 0)
		vShareTable[slot] = [2]*big.Int{new(big.Int).Mod(new(big.Int).Add(e[0], delta), bn256.Order), e[1]}
	}
	if kind == kBadShareThenSilent {
		bad.stopped = true // its shares and commitments are out; it never speaks again
	}
	// phase 4
	for _, m := range r.members {
		if !running(m) {
			continue
		}
		m.cvm = m.cm.InitializeCommitmentsVerification()
		sh := vFrom(r, m, func(o *vMemberRun) *PeerSharesMessage { return o.shares }, func(o *vMemberRun) bool { return o.shares != nil })
		co := vFrom(r, m, func(o *vMemberRun) *MemberCommitmentsMessage { return o.comm }, func(o *vMemberRun) bool { return o.comm != nil })
		m.cvm.MarkInactiveMembers(sh, co)
		var err error
		m.acc1, err = m.cvm.VerifyReceivedSharesAndCommitmentsMessages(sh, co)
		vAssert(err == nil, "phase 4 failed")
		if r.honest(m) {
			for accused := range m.acc1.accusedMembersKeys {
				vAssert(accused == corrupt, "an honest member accused an honest member's shares")
			}
		}
	}
	if kind == kFalseShareAccusation {
		bad.acc1.accusedMembersKeys[victim] = &ephemeral.PrivateKey{}
	}
	if kind == kBadShare || kind == kFalseShareAccusation {
		bad.stopped = true // its accusation message is out; nothing more is heard from it
	}
	// phase 5
	for _, m := range r.members {
		if !running(m) {
			continue
		}
		m.sjm = m.cvm.InitializeSharesJustification()
		ac := vFrom(r, m, func(o *vMemberRun) *SecretSharesAccusationsMessage { return o.acc1 }, func(o *vMemberRun) bool { return o.acc1 != nil })
		m.sjm.MarkInactiveMembers(ac)
		vAssert(m.sjm.ResolveSecretSharesAccusationsMessages(ac) == nil, "phase 5 failed")
	}
	if kind == kSilentAfterSharing {
		bad.stopped = true
	}
	// phase 6, 7
	for _, m := range r.members {
		if !running(m) {
			continue
		}
		m.qm = m.sjm.InitializeQualified()
		m.qm.CombineMemberShares()
		m.sm = m.qm.InitializeSharing()
		m.points = m.sm.CalculatePublicKeySharePoints()
	}
	if kind == kBadPoints || kind == kBadPointsThenSilent {
		delta := vBig(8)
		vAssume(delta.Sign() > 0 && delta.Cmp(bn256.Order) < 0)
		wrong := new(bn256.G2).Add(bad.points.publicKeySharePoints[0], new(bn256.G2).ScalarBaseMult(delta))
		bad.points = &MemberPublicKeySharePointsMessage{senderID: bad.id, publicKeySharePoints: append([]*bn256.G2{wrong}, bad.points.publicKeySharePoints[1:]...), sessionID: "session"}
	}
	if kind == kBadPointsThenSilent {
		bad.stopped = true // the points message is out; it never speaks again
	}
	// phase 8
	for _, m := range r.members {
		if !running(m) {
			continue
		}
		pts := vFrom(r, m, func(o *vMemberRun) *MemberPublicKeySharePointsMessage { return o.points }, func(o *vMemberRun) bool { return o.points != nil && (!o.stopped || kind == kBadPointsThenSilent) })
		m.sm.MarkInactiveMembers(pts)
		var err error
		m.acc2, err = m.sm.VerifyPublicKeySharePoints(pts)
		vAssert(err == nil, "phase 8 failed")
		if r.honest(m) {
			for accused := range m.acc2.accusedMembersKeys {
				vAssert(accused == corrupt, "an honest member accused an honest member's public key share points")
			}
		}
	}
	if kind == kFalsePointsAccusation {
		bad.acc2.accusedMembersKeys[victim] = &ephemeral.PrivateKey{}
	}
	if kind == kBadPoints || kind == kFalsePointsAccusation {
		bad.stopped = true
	}
	// phase 9
	for _, m := range r.members {
		if !running(m) {
			continue
		}
		m.pjm = m.sm.InitializePointsJustification()
		ac := vFrom(r, m, func(o *vMemberRun) *PointsAccusationsMessage { return o.acc2 }, func(o *vMemberRun) bool {
			return o.acc2 != nil && (!o.stopped || kind == kBadPoints || kind == kFalsePointsAccusation)
		})
		m.pjm.MarkInactiveMembers(ac)
		vAssert(m.pjm.ResolvePublicKeySharePointsAccusationsMessages(ac) == nil, "phase 9 failed")
	}
	// phase 10
	for _, m := range r.members {
		if !running(m) {
			continue
		}
		m.rm = m.pjm.InitializeRevealing()
		var err error
		m.keys, err = m.rm.RevealMisbehavedMembersKeys()
		vAssert(err == nil, "phase 10 failed")
	}
	// phase 11, 12
	for _, m := range r.members {
		if !running(m) {
			continue
		}
		m.rcm = m.rm.InitializeReconstruction()
		ks := vFrom(r, m, func(o *vMemberRun) *MisbehavedEphemeralKeysMessage { return o.keys }, func(o *vMemberRun) bool { return o.keys != nil && !o.stopped })
		m.rcm.MarkInactiveMembers(ks)
		vAssert(m.rcm.ReconstructMisbehavedIndividualKeys(ks) == nil, "phase 11 failed")
		m.cbm = m.rcm.InitializeCombining()
		m.cbm.CombineGroupPublicKey()
		m.cbm.ComputeGroupPublicKeyShares()
		m.result = m.cbm.InitializeFinalization().Result()
	}
	return r
}

// vLagrangeAtZero: the harness's own interpolation over the same field
func vLagrangeAtZero(ids []group.MemberIndex, shares []*big.Int) *big.Int {
	q := bn256.Order
	sum := big.NewInt(0)
	for a, i := range ids {
		num, den := big.NewInt(1), big.NewInt(1)
		for b, j := range ids {
			if a == b {
				continue
			}
			num.Mul(num, big.NewInt(int64(j)))
			den.Mul(den, big.NewInt(int64(j)-int64(i)))
		}
		den.Mod(den, q)
		l := new(big.Int).Mul(num, new(big.Int).ModInverse(den, q))
		l.Mod(l, q)
		sum.Add(sum, new(big.Int).Mul(shares[a], l))
	}
	return sum.Mod(sum, q)
}

func vSameSet(a, b []group.MemberIndex) bool {
	if len(a) != len(b) {
		return false
	}
	for _, x := range a {
		found := false
		for _, y := range b {
			found = found || x == y
		}
		if !found {
			return false
		}
	}
	return true
}

func vCheck(r *vRun) {
	var honest []*vMemberRun
	for _, m := range r.members {
		if r.honest(m) {
			honest = append(honest, m)
		}
	}
	first := honest[0]
	var wantIA, wantDQ []group.MemberIndex
	switch r.kind {
	case kSilentFromStart, kSilentAfterSharing:
		wantIA = []group.MemberIndex{r.corrupt}
	case kBadShare, kFalseShareAccusation, kBadPoints, kFalsePointsAccusation:
		wantDQ = []group.MemberIndex{r.corrupt}
	}
	for _, m := range honest {
		vAssert(m.result.GroupPublicKey != nil && vSamePoint(m.result.GroupPublicKey, first.result.GroupPublicKey), "honest members computed different group public keys")
		ia, dq := m.result.Group.InactiveMemberIndexes(), m.result.Group.DisqualifiedMemberIndexes()
		vAssert(vSameSet(append(append([]group.MemberIndex{}, ia...), dq...), append(append([]group.MemberIndex{}, first.result.Group.InactiveMemberIndexes()...), first.result.Group.DisqualifiedMemberIndexes()...)), "honest members disagree on the set of inactive and disqualified members")
		for _, h := range honest {
			for _, x := range ia {
				vAssert(x != h.id, "an honest member was marked inactive by an honest member")
			}
			for _, x := range dq {
				vAssert(x != h.id, "an honest member was disqualified by an honest member")
			}
		}
		if r.kind == kBadShareThenSilent || r.kind == kBadPointsThenSilent {
			// the victim has proof (disqualified), the others see silence first (inactive): the member is out either way
			vAssert(len(ia)+len(dq) == 1 && (len(ia) == 1 && ia[0] == r.corrupt || len(dq) == 1 && dq[0] == r.corrupt), "the misbehaving member, and only it, must be excluded")
		} else {
			vAssert(vSameSet(ia, wantIA) && vSameSet(dq, wantDQ), "the misbehaving member was not marked as the protocol prescribes (silence: inactive; provable misbehaviour: disqualified)")
		}
	}
	vReach("agreed")
	for _, m := range honest {
		mine := new(bn256.G2).ScalarBaseMult(m.result.GroupPrivateKeyShare)
		for _, o := range honest {
			if o.id == m.id {
				continue
			}
			theirs, ok := o.result.GroupPublicKeyShares()[m.id]
			vAssert(ok && vSamePoint(mine, theirs), "a member's private key share does not match the public key share another honest member computed for it")
		}
	}
	vReach("shares-consistent")
	for a := 0; a < len(honest); a++ {
		for b := a + 1; b < len(honest); b++ {
			ids := []group.MemberIndex{honest[a].id, honest[b].id}
			xs := []*big.Int{honest[a].result.GroupPrivateKeyShare, honest[b].result.GroupPrivateKeyShare}
			secret := vLagrangeAtZero(ids, xs)
			vAssert(vSamePoint(new(bn256.G2).ScalarBaseMult(secret), first.result.GroupPublicKey), "threshold+1 honest shares do not interpolate to the group secret")
		}
	}
	vReach("interpolated")
}

// VerifC01_OneCorruptMember: a group of three (threshold 1) in which any one
// member behaves in any of the modelled ways, aimed at either honest member.
func VerifC01_OneCorruptMember() {
	kind := vRange(kSilentFromStart, kBadPointsThenSilent)
	if vThorough() {
		corrupt := group.MemberIndex(vRange(1, 4))
		victim := group.MemberIndex(vRange(1, 4))
		vAssume(victim != corrupt)
		vCheck(vExecute(4, 1, corrupt, kind, victim))
		return
	}
	corrupt := group.MemberIndex(vRange(1, 3))
	victim := group.MemberIndex(vRange(1, 3))
	vAssume(victim != corrupt)
	vCheck(vExecute(3, 1, corrupt, kind, victim))
}

// VerifC01_AllHonest: nobody misbehaves, nobody is marked.
func VerifC01_AllHonest() {
	vCheck(vExecute(3, 1, 0, kHonest, 0))
}

func vIsKeyMatching(pk *ephemeral.PublicKey, sk *ephemeral.PrivateKey) bool { return true }
func vEcdh(sk *ephemeral.PrivateKey, pk *ephemeral.PublicKey) *ephemeral.SymmetricEcdhKey {
	return &ephemeral.SymmetricEcdhKey{}
}
