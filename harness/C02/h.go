package gjkr

import (
	"math/big"

	bn256 "github.com/ethereum/go-ethereum/crypto/bn256/cloudflare"
	"github.com/ipfs/go-log/v2"
	"github.com/keep-network/keep-core/pkg/crypto/ephemeral"
	"github.com/keep-network/keep-core/pkg/protocol/group"
)

// symmetric channel between two members: authenticated, transparent
type vKey struct{}

func (vKey) Encrypt(p []byte) ([]byte, error) { return append([]byte{0xEE}, p...), nil }
func (vKey) Decrypt(c []byte) ([]byte, error) {
	if len(c) == 0 || c[0] != 0xEE {
		return nil, errVerif
	}
	return append([]byte{}, c[1:]...), nil
}

type vErrT struct{}

func (vErrT) Error() string { return "verif: cannot decrypt" }

var errVerif = vErrT{}

// the share transport (serialise, encrypt, decrypt, parse) is replaced by a
// side table keyed by the message slot: what arrives is what was sent
var vShareTable = map[*peerShares][2]*big.Int{}

func vAddShares(psm *PeerSharesMessage, receiverID group.MemberIndex, shareS, shareT *big.Int, key ephemeral.SymmetricKey) error {
	slot := &peerShares{}
	vShareTable[slot] = [2]*big.Int{shareS, shareT}
	psm.shares[receiverID] = slot
	return nil
}
func vDecryptShareS(psm *PeerSharesMessage, receiverID group.MemberIndex, key ephemeral.SymmetricKey) (*big.Int, error) {
	slot, ok := psm.shares[receiverID]
	if !ok {
		return nil, errVerif
	}
	return new(big.Int).Set(vShareTable[slot][0]), nil
}
func vDecryptShareT(psm *PeerSharesMessage, receiverID group.MemberIndex, key ephemeral.SymmetricKey) (*big.Int, error) {
	slot, ok := psm.shares[receiverID]
	if !ok {
		return nil, errVerif
	}
	return new(big.Int).Set(vShareTable[slot][1]), nil
}

type vRun struct {
	n, t    int
	silent  group.MemberIndex // member that stops sending from phase 7 on (0: nobody)
	silent2 group.MemberIndex // a second such member (0: nobody)
	members []*vMemberRun
}

type vMemberRun struct {
	id     group.MemberIndex
	core   *memberCore
	cm     *CommittingMember
	cvm    *CommitmentsVerifyingMember
	sjm    *SharesJustifyingMember
	qm     *QualifiedMember
	sm     *SharingMember
	pjm    *PointsJustifyingMember
	rm     *RevealingMember
	rcm    *ReconstructingMember
	cbm    *CombiningMember
	result *Result

	shares *PeerSharesMessage
	comm   *MemberCommitmentsMessage
	acc1   *SecretSharesAccusationsMessage
	points *MemberPublicKeySharePointsMessage
	acc2   *PointsAccusationsMessage
	keys   *MisbehavedEphemeralKeysMessage
}

func vOthers[T any](r *vRun, self group.MemberIndex, get func(*vMemberRun) T, sending func(*vMemberRun) bool) []T {
	var out []T
	for _, m := range r.members {
		if m.id != self && sending(m) {
			out = append(out, get(m))
		}
	}
	return out
}

// vExecute drives the real phase functions of every member in protocol order.
func vExecute(n, t int, silent group.MemberIndex, more ...group.MemberIndex) *vRun {
	r := &vRun{n: n, t: t, silent: silent}
	if len(more) > 0 {
		r.silent2 = more[0]
	}
	silent2 := r.silent2
	// second generator: H = h*G
	// (a fixed h keeps the commitment equations linear for the solver; the
	// honest-path equations hold identically in h)
	H := new(bn256.G1).ScalarBaseMult(big.NewInt(2))
	for i := 1; i <= n; i++ {
		core := &memberCore{log.Logger("verif"), group.MemberIndex(i), group.NewGroup(t, n), nil, newDkgEvidenceLog(), &protocolParameters{H: H}, "session"}
		skm := (&LocalMember{core}).InitializeEphemeralKeysGeneration().InitializeSymmetricKeyGeneration()
		for j := 1; j <= n; j++ {
			if j != i {
				skm.symmetricKeys[group.MemberIndex(j)] = vKey{}
				skm.ephemeralKeyPairs[group.MemberIndex(j)] = &ephemeral.KeyPair{PrivateKey: &ephemeral.PrivateKey{}, PublicKey: &ephemeral.PublicKey{}}
			}
		}
		r.members = append(r.members, &vMemberRun{id: group.MemberIndex(i), core: core, cm: skm.InitializeCommitting()})
	}
	// phase 1 evidence: everybody holds everybody's ephemeral public keys
	for _, m := range r.members {
		for j := 1; j <= n; j++ {
			if group.MemberIndex(j) == m.id {
				continue
			}
			keys := map[group.MemberIndex]*ephemeral.PublicKey{}
			for k := 1; k <= n; k++ {
				if k != j {
					keys[group.MemberIndex(k)] = &ephemeral.PublicKey{}
				}
			}
			vAssert(m.core.evidenceLog.PutEphemeralMessage(&EphemeralPublicKeyMessage{senderID: group.MemberIndex(j), ephemeralPublicKeys: keys, sessionID: "session"}) == nil, "evidence log refused a first message")
		}
	}
	always := func(*vMemberRun) bool { return true }
	active := func(m *vMemberRun) bool { return m.id != silent && m.id != silent2 }
	// phase 3
	for _, m := range r.members {
		var err error
		m.shares, m.comm, err = m.cm.CalculateMembersSharesAndCommitments()
		vAssert(err == nil, "phase 3 failed")
	}
	// phase 4
	for _, m := range r.members {
		m.cvm = m.cm.InitializeCommitmentsVerification()
		sh := vOthers(r, m.id, func(o *vMemberRun) *PeerSharesMessage { return o.shares }, always)
		co := vOthers(r, m.id, func(o *vMemberRun) *MemberCommitmentsMessage { return o.comm }, always)
		m.cvm.MarkInactiveMembers(sh, co)
		var err error
		m.acc1, err = m.cvm.VerifyReceivedSharesAndCommitmentsMessages(sh, co)
		vAssert(err == nil, "phase 4 failed")
		vAssert(len(m.acc1.accusedMembersKeys) == 0, "an honest member's shares were accused")
	}
	// phase 5
	for _, m := range r.members {
		m.sjm = m.cvm.InitializeSharesJustification()
		ac := vOthers(r, m.id, func(o *vMemberRun) *SecretSharesAccusationsMessage { return o.acc1 }, always)
		m.sjm.MarkInactiveMembers(ac)
		vAssert(m.sjm.ResolveSecretSharesAccusationsMessages(ac) == nil, "phase 5 failed")
	}
	// phase 6, 7
	for _, m := range r.members {
		m.qm = m.sjm.InitializeQualified()
		m.qm.CombineMemberShares()
		m.sm = m.qm.InitializeSharing()
		m.points = m.sm.CalculatePublicKeySharePoints()
	}
	// phase 8 (a silent member's points message is missing from here on)
	for _, m := range r.members {
		if m.id == silent || m.id == silent2 {
			continue
		}
		pts := vOthers(r, m.id, func(o *vMemberRun) *MemberPublicKeySharePointsMessage { return o.points }, active)
		m.sm.MarkInactiveMembers(pts)
		var err error
		m.acc2, err = m.sm.VerifyPublicKeySharePoints(pts)
		vAssert(err == nil, "phase 8 failed")
		vAssert(len(m.acc2.accusedMembersKeys) == 0, "an honest member's public key share points were accused")
	}
	// phase 9
	for _, m := range r.members {
		if m.id == silent || m.id == silent2 {
			continue
		}
		m.pjm = m.sm.InitializePointsJustification()
		ac := vOthers(r, m.id, func(o *vMemberRun) *PointsAccusationsMessage { return o.acc2 }, active)
		m.pjm.MarkInactiveMembers(ac)
		vAssert(m.pjm.ResolvePublicKeySharePointsAccusationsMessages(ac) == nil, "phase 9 failed")
	}
	// phase 10
	for _, m := range r.members {
		if m.id == silent || m.id == silent2 {
			continue
		}
		m.rm = m.pjm.InitializeRevealing()
		var err error
		m.keys, err = m.rm.RevealMisbehavedMembersKeys()
		vAssert(err == nil, "phase 10 failed")
	}
	// phase 11, 12
	for _, m := range r.members {
		if m.id == silent || m.id == silent2 {
			continue
		}
		m.rcm = m.rm.InitializeReconstruction()
		ks := vOthers(r, m.id, func(o *vMemberRun) *MisbehavedEphemeralKeysMessage { return o.keys }, active)
		m.rcm.MarkInactiveMembers(ks)
		vAssert(m.rcm.ReconstructMisbehavedIndividualKeys(ks) == nil, "phase 11 failed")
		m.cbm = m.rcm.InitializeCombining()
		m.cbm.CombineGroupPublicKey()
		m.cbm.ComputeGroupPublicKeyShares()
		m.result = m.cbm.InitializeFinalization().Result()
	}
	return r
}

// vLagrangeAtZero: the harness's own interpolation over the same field
func vLagrangeAtZero(ids []group.MemberIndex, shares []*big.Int) *big.Int {
	q := bn256.Order
	sum := big.NewInt(0)
	for a, i := range ids {
		num, den := big.NewInt(1), big.NewInt(1)
		for b, j := range ids {
			if a == b {
				continue
			}
			num.Mul(num, big.NewInt(int64(j)))
			den.Mul(den, big.NewInt(int64(j)-int64(i)))
		}
		den.Mod(den, q)
		l := new(big.Int).Mul(num, new(big.Int).ModInverse(den, q))
		l.Mod(l, q)
		sum.Add(sum, new(big.Int).Mul(shares[a], l))
	}
	return sum.Mod(sum, q)
}

func vCheck(r *vRun) {
	var honest []*vMemberRun
	for _, m := range r.members {
		if m.id != r.silent && m.id != r.silent2 {
			honest = append(honest, m)
		}
	}
	first := honest[0]
	for _, m := range honest {
		vAssert(m.result.GroupPublicKey != nil && vSamePoint(m.result.GroupPublicKey, first.result.GroupPublicKey), "honest members computed different group public keys")
		vAssert(len(m.result.Group.DisqualifiedMemberIndexes()) == 0, "an honest run disqualified a member")
		if r.silent == 0 {
			vAssert(len(m.result.Group.InactiveMemberIndexes()) == 0, "an honest run marked a member inactive")
		} else {
			ia := m.result.Group.InactiveMemberIndexes()
			if r.silent2 == 0 {
				vAssert(len(ia) == 1 && ia[0] == r.silent, "the silent member, and only it, must be marked inactive")
			} else {
				vAssert(len(ia) == 2 && (ia[0] == r.silent && ia[1] == r.silent2 || ia[0] == r.silent2 && ia[1] == r.silent), "the two silent members, and only they, must be marked inactive")
			}
		}
	}
	vReach("agreed")
	// x_i * G2 is the public key share every other honest member holds for i
	for _, m := range honest {
		mine := new(bn256.G2).ScalarBaseMult(m.result.GroupPrivateKeyShare)
		for _, o := range honest {
			if o.id == m.id {
				continue
			}
			theirs, ok := o.result.GroupPublicKeyShares()[m.id]
			vAssert(ok && vSamePoint(mine, theirs), "a member's private key share does not match the public key share another honest member computed for it")
		}
	}
	vReach("shares-consistent")
	// any t+1 honest shares interpolate to the secret behind the group public key
	k := r.t + 1
	for a := 0; a < len(honest); a++ {
		for b := a + 1; b < len(honest); b++ {
			ids := []group.MemberIndex{honest[a].id, honest[b].id}
			xs := []*big.Int{honest[a].result.GroupPrivateKeyShare, honest[b].result.GroupPrivateKeyShare}
			if k == 3 {
				for c := b + 1; c < len(honest); c++ {
					ids3 := append(append([]group.MemberIndex{}, ids...), honest[c].id)
					xs3 := append(append([]*big.Int{}, xs...), honest[c].result.GroupPrivateKeyShare)
					secret := vLagrangeAtZero(ids3, xs3)
					vAssert(vSamePoint(new(bn256.G2).ScalarBaseMult(secret), first.result.GroupPublicKey), "threshold+1 honest shares do not interpolate to the group secret")
				}
				continue
			}
			secret := vLagrangeAtZero(ids, xs)
			vAssert(vSamePoint(new(bn256.G2).ScalarBaseMult(secret), first.result.GroupPublicKey), "threshold+1 honest shares do not interpolate to the group secret")
		}
	}
	vReach("interpolated")
}

// ephemeral key plumbing of the reconstruction phase: a revealed private key
// matches the public key on record and opens the channel it belongs to
func vIsKeyMatching(pk *ephemeral.PublicKey, sk *ephemeral.PrivateKey) bool { return true }
func vEcdh(sk *ephemeral.PrivateKey, pk *ephemeral.PublicKey) *ephemeral.SymmetricEcdhKey {
	return &ephemeral.SymmetricEcdhKey{}
}

// VerifC02_SilentAfterSharing: one member (any) distributes valid shares and
// then goes silent before publishing its public key share points; the others
// mark it inactive, reveal their channel keys with it, reconstruct its
// individual key from the shares on record and still end up with consistent
// shares of the group key that includes the silent member's contribution.
func VerifC02_SilentAfterSharing() {
	var silent group.MemberIndex
	var r *vRun
	switch {
	case !vThorough():
		silent = group.MemberIndex(vRange(1, 3))
		r = vExecute(3, 1, silent)
	case vBool():
		silent = group.MemberIndex(vRange(1, 4))
		r = vExecute(4, 1, silent)
	default:
		silent = group.MemberIndex(vRange(1, 5))
		r = vExecute(5, 2, silent)
	}
	for _, m := range r.members {
		if m.id != silent {
			vAssert(len(m.rcm.reconstructedIndividualPrivateKeys) == 1, "the silent member's individual key was not reconstructed")
			// the reconstructed key is the silent member's own secret
			z := m.rcm.reconstructedIndividualPrivateKeys[silent]
			vAssert(z != nil && new(big.Int).Mod(z, bn256.Order).Cmp(new(big.Int).Mod(r.members[silent-1].cm.secretCoefficients[0], bn256.Order)) == 0, "reconstruction did not recover the silent member's individual private key")
			vReach("reconstructed")
		}
	}
	vCheck(r)
}

// VerifC02_TwoSilentAfterSharing: five members, threshold 2, and two of them
// go silent after sharing, so two individual keys are reconstructed and both
// contributions have to show up in the group key and in every public key share.
func VerifC02_TwoSilentAfterSharing() {
	a, b := group.MemberIndex(2), group.MemberIndex(5)
	if vThorough() {
		a = group.MemberIndex(vRange(1, 4))
		b = group.MemberIndex(vRange(2, 5))
		vAssume(a < b)
	}
	r := vExecute(5, 2, a, b)
	for _, m := range r.members {
		if m.id != a && m.id != b {
			vAssert(len(m.rcm.reconstructedIndividualPrivateKeys) == 2, "both silent members' individual keys must be reconstructed")
			vReach("reconstructed")
		}
	}
	vCheck(r)
}

// VerifC02_HonestRun: every member follows the protocol; all polynomial
// coefficients and the second generator are arbitrary.
func VerifC02_HonestRun() {
	if vThorough() {
		if vBool() {
			vCheck(vExecute(4, 1, 0))
		} else {
			vCheck(vExecute(5, 2, 0))
		}
		return
	}
	vCheck(vExecute(3, 1, 0))
}
