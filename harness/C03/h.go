package bls

import (
	"math/big"

	bn256 "github.com/ethereum/go-ethereum/crypto/bn256/cloudflare"
)

func vThreshold() int {
	if vThorough() {
		return 3
	}
	return 2
}

// vPolynomial: arbitrary coefficients (the group secret is coefficient 0).
func vPolynomial(t int) []*big.Int {
	c := make([]*big.Int, t)
	for i := range c {
		c[i] = vBig(16)
	}
	return c
}

// slot kinds of a share list entry
const (
	kValid = iota
	kNil
	kNoValue
	kNegative
)

// Signature recovery from any list of entries: valid shares with distinct
// indices in any order, interleaved with entries recovery must skip.
func VerifC03_RecoverSignature() {
	t := vThreshold()
	slots := t + 1
	if vThorough() {
		slots = t + 2
	}
	coeffs := vPolynomial(t)
	msg := new(bn256.G1).ScalarBaseMult(big.NewInt(int64(vRange(1, 2))))
	used := make([]bool, 8)
	var shares []*SignatureShare
	valid := 0
	for s := 0; s < slots; s++ {
		switch vRange(0, 3) {
		case kValid:
			i := vRange(1, 5)
			vAssume(!used[i])
			used[i] = true
			sk := GetSecretKeyShare(coeffs, i)
			shares = append(shares, &SignatureShare{I: i, V: SignG1(sk.V, msg)})
			valid++
		case kNil:
			shares = append(shares, nil)
		case kNoValue:
			shares = append(shares, &SignatureShare{I: vRange(1, 5), V: nil})
		case kNegative:
			shares = append(shares, &SignatureShare{I: -vRange(1, 5), V: new(bn256.G1).ScalarBaseMult(big.NewInt(5))})
		}
	}
	sig, err := RecoverSignature(shares, t)
	vObserve("err", err != nil)
	if valid < t {
		vReach("too-few")
		vAssert(err != nil, "recovery must fail with fewer valid shares than the threshold")
		return
	}
	vReach("recovered")
	vAssert(err == nil, "recovery failed although a threshold of valid shares was supplied")
	want := SignG1(coeffs[0], msg)
	vAssert(vSamePoint(sig, want), "recovered signature is not the group signature (secret * message)")
	groupKey := new(bn256.G2).ScalarBaseMult(coeffs[0])
	vAssert(VerifyG1(groupKey, msg, sig), "recovered signature does not verify under the group public key")
}

func VerifC03_RecoverPublicKey() {
	t := vThreshold()
	slots := t + 1
	coeffs := vPolynomial(t)
	used := make([]bool, 8)
	var shares []*PublicKeyShare
	valid := 0
	for s := 0; s < slots; s++ {
		switch vRange(0, 3) {
		case kValid:
			i := vRange(1, 5)
			vAssume(!used[i])
			used[i] = true
			shares = append(shares, GetSecretKeyShare(coeffs, i).PublicKeyShare())
			valid++
		case kNil:
			shares = append(shares, nil)
		case kNoValue:
			shares = append(shares, &PublicKeyShare{I: vRange(1, 5), V: nil})
		case kNegative:
			shares = append(shares, &PublicKeyShare{I: -vRange(1, 5), V: new(bn256.G2).ScalarBaseMult(big.NewInt(5))})
		}
	}
	pub, err := RecoverPublicKey(shares, t)
	vObserve("err", err != nil)
	if valid < t {
		vAssert(err != nil, "recovery must fail with fewer valid shares than the threshold")
		return
	}
	vReach("recovered")
	vAssert(err == nil, "public key recovery failed although a threshold of valid shares was supplied")
	vAssert(vSamePoint(pub, new(bn256.G2).ScalarBaseMult(coeffs[0])), "recovered public key is not secret * G2")
}
