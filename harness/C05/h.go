package dkg

import (
	"math/big"

	bn256 "github.com/ethereum/go-ethereum/crypto/bn256/cloudflare"
	beaconchain "github.com/keep-network/keep-core/pkg/beacon/chain"
	dkgResult "github.com/keep-network/keep-core/pkg/beacon/dkg/result"
	"github.com/keep-network/keep-core/pkg/beacon/event"
	"github.com/keep-network/keep-core/pkg/beacon/gjkr"
	"github.com/keep-network/keep-core/pkg/chain"
	"github.com/keep-network/keep-core/pkg/protocol/group"
)

type vstubBeaconChain struct {
	beaconchain.Interface
	cfg *beaconchain.Config
}

func (c *vstubBeaconChain) GetConfig() *beaconchain.Config { return c.cfg }

type vstubBlockCounter struct {
	chain.BlockCounter
	fire      bool
	requested []uint64
}

func (b *vstubBlockCounter) BlockHeightWaiter(n uint64) (<-chan uint64, error) {
	b.requested = append(b.requested, n)
	ch := make(chan uint64, 1)
	if b.fire {
		ch <- n
	}
	return ch, nil
}

// vGroupPublicKeyBytes replaces gjkr.Result.GroupPublicKeyBytes in the engine
// (point compression is C04's subject): a fixed 128-byte encoding.
func vGroupPublicKeyBytes(r *gjkr.Result) ([]byte, error) {
	b := make([]byte, 128)
	for i := range b {
		b[i] = byte(7*i + 3)
	}
	return b, nil
}

func vGroupSize() int {
	if vThorough() {
		return 5
	}
	return 3
}

// decideMemberFate against every on-chain result event (key equal or
// differing in content or length, arbitrary misbehaved list) and every
// event-versus-timeout readiness.
func VerifC05_Fate() {
	n := vGroupSize()
	player := group.MemberIndex(vRange(1, n))
	grp := group.NewGroup(1, n)
	// the member's local view of inactivity must not influence the fate
	if vBool() {
		grp.MarkMemberAsInactive(group.MemberIndex(vRange(1, n)))
	}
	r := &gjkr.Result{Group: grp}
	if !vSymbolic() {
		r.GroupPublicKey = new(bn256.G2).ScalarBaseMult(big.NewInt(7))
	}
	own, _ := r.GroupPublicKeyBytes()
	evKey := make([]byte, len(own))
	copy(evKey, own)
	evKey[0] ^= vU8()
	evKey[len(own)/2] ^= vU8()
	evKey[len(own)-1] ^= vU8()
	switch vRange(0, 2) {
	case 1:
		evKey = evKey[:len(evKey)-1]
	case 2:
		evKey = append(evKey, vU8())
	}
	keyEqual := len(evKey) == len(own)
	for i := 0; keyEqual && i < len(own); i++ {
		keyEqual = evKey[i] == own[i]
	}
	mis := make([]uint8, vRange(0, n))
	for i := range mis {
		mis[i] = vU8()
	}
	isMis := func(m group.MemberIndex) bool {
		f := false
		for _, x := range mis {
			f = f || x == uint8(m)
		}
		return f
	}
	hasEvent, timeoutReady := vBool(), vBool()
	ch := make(chan *event.DKGResultSubmission, 1)
	if hasEvent {
		ch <- &event.DKGResultSubmission{MemberIndex: 1, GroupPublicKey: evKey, Misbehaved: mis, BlockNumber: 10}
	}
	vAssume(hasEvent || timeoutReady)
	start := vU64()
	step := uint64(vRange(1, 3))
	cfg := &beaconchain.Config{GroupSize: n, HonestThreshold: n - 1, ResultPublicationBlockStep: step}
	bc := &vstubBlockCounter{fire: timeoutReady}
	ops, err := decideMemberFate(player, r, ch, start, &vstubBeaconChain{cfg: cfg}, bc)
	if !(hasEvent && timeoutReady) { // select between two ready channels is random natively
		vObserve("err", err != nil)
		vObserve("ops", ops)
	}
	vAssert(len(bc.requested) == 1 && bc.requested[0] == start+dkgResult.PrePublicationBlocks()+uint64(n)*step, "fate: result publication timeout block")
	keep := keyEqual && !isMis(player)
	if !hasEvent {
		vReach("timeout")
		vAssert(err != nil, "fate: publication timeout must end the membership")
		return
	}
	if !timeoutReady {
		vAssert((err == nil) == keep, "fate: member keeps membership iff the accepted result has its group key and does not list it as misbehaving")
	}
	if err != nil {
		vReach("left")
		vAssert(ops == nil, "fate: no operating list on error")
		return
	}
	vReach("kept")
	vAssert(keep, "fate: member stayed although the accepted result has another key or lists it as misbehaving")
	j := 0
	for m := 1; m <= n; m++ {
		if isMis(group.MemberIndex(m)) {
			continue
		}
		vAssert(j < len(ops) && ops[j] == group.MemberIndex(m), "fate: operating members must be exactly the members the accepted result does not list as misbehaving, ascending")
		j++
	}
	vAssert(j == len(ops), "fate: operating list has extra members")
}

var vAddrs = []chain.Address{"0xaa", "0xbb", "0xcc", "0xdd", "0xee", "0xff"}

// resolveGroupOperators for every operating set in every input order.
func VerifC05_Operators() {
	n := vGroupSize()
	selected := make([]chain.Address, vRange(n-1, n+1))
	for i := range selected {
		selected[i] = vAddrs[vRange(0, 2)] // operators may hold several seats
	}
	// operating subset in arbitrary order: pick members one by one without repetition
	k := vRange(0, n)
	used := make([]bool, n+1)
	var ops []group.MemberIndex
	for i := 0; i < k; i++ {
		m := vRange(1, n)
		vAssume(!used[m])
		used[m] = true
		ops = append(ops, group.MemberIndex(m))
	}
	honest := vRange(1, n)
	cfg := &beaconchain.Config{GroupSize: n, HonestThreshold: honest}
	in := append([]group.MemberIndex{}, ops...)
	res, err := resolveGroupOperators(selected, in, cfg)
	vObserve("err", err != nil)
	vObserve("res", res)
	vAssert((err != nil) == (len(selected) != n || k < honest), "operators: error iff sizes violate the configuration")
	if err != nil {
		return
	}
	vReach("operators")
	j := 0
	for m := 1; m <= n; m++ {
		if !used[m] {
			continue
		}
		vAssert(j < len(res) && res[j] == selected[m-1], "operators: list must be the selected operators of the operating members in member-index order")
		j++
	}
	vAssert(j == len(res), "operators: extra entries")
}
