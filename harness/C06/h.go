package event

import (
	"encoding/hex"
	"fmt"
	"math/big"
	"sync"
)

type vstubChain struct {
	entry    byte
	block    uint64
	eEntry   bool
	eBlock   bool
	consults int
}

func (c *vstubChain) CurrentRequestStartBlock() (*big.Int, error) {
	c.consults++
	if c.eBlock {
		return nil, fmt.Errorf("verif: chain error")
	}
	return new(big.Int).SetUint64(c.block), nil
}

func (c *vstubChain) CurrentRequestPreviousEntry() ([]byte, error) {
	c.consults++
	if c.eEntry {
		return nil, fmt.Errorf("verif: chain error")
	}
	return []byte{c.entry}, nil
}

// Sequential histories from an arbitrary deduplicator state (so the k calls
// stand for the tail of a history of any length).
func VerifC06_Sequence() {
	k := 2
	if vThorough() {
		k = 4
	}
	c := &vstubChain{}
	d := &Deduplicator{chain: c}
	gBlock := vU64()
	gEntry := vU8()
	if vBool() { // fresh node
		gBlock = 0
	}
	d.currentRequestStartBlock = gBlock
	d.currentRequestPreviousEntry = hex.EncodeToString([]byte{gEntry})
	for i := 0; i < k; i++ {
		block, entry := vU64(), vU8()
		vAssume(block >= 1) // relay requests are emitted at positive block heights
		c.entry, c.block, c.eEntry, c.eBlock = vU8(), vU64(), vBool(), vBool()
		ok, err := d.NotifyRelayEntryStarted(block, hex.EncodeToString([]byte{entry}))
		vObserve("ok", ok)
		vObserve("err", err != nil)
		vAssert(!(ok && err != nil), "accepted together with an error")
		if ok {
			vAssert(gBlock == 0 || block > gBlock, "accepted a request that is not newer than the one already processed")
		}
		switch {
		case gBlock == 0:
			vAssert(ok && err == nil, "first request must be processed")
		case block <= gBlock:
			vReach("stale")
			vAssert(!ok && err == nil, "duplicate or older request must be ignored")
		case entry != gEntry:
			vReach("new-entry")
			vAssert(ok && err == nil, "a newer request with a new previous entry must be processed")
		default:
			vReach("same-entry")
			if c.eEntry || c.eBlock {
				vAssert(!ok && err != nil, "chain failure must surface as an error and accept nothing")
			} else {
				vAssert(err == nil && ok == (c.entry == entry && c.block == block), "a newer request reusing the previous entry is processed iff the chain confirms it as current")
			}
		}
		if ok {
			gBlock, gEntry = block, entry
		}
		vAssert(d.currentRequestStartBlock == gBlock && d.currentRequestPreviousEntry == hex.EncodeToString([]byte{gEntry}), "deduplicator state must change exactly when a request is accepted")
	}
}

// Concurrent deliveries of notifications: outcomes must equal one of the
// sequential orders (the calls are serialised by the mutex).
func VerifC06_Concurrent() {
	c := &vstubChain{}
	d := &Deduplicator{chain: c}
	g0 := uint64(vU8())
	e0 := vU8()
	d.currentRequestStartBlock = g0
	d.currentRequestPreviousEntry = hex.EncodeToString([]byte{e0})
	c.entry, c.block = vU8(), uint64(vU8())
	n := 2
	if vThorough() {
		n = 3
	}
	blocks := make([]uint64, n)
	entries := make([]byte, n)
	oks := make([]bool, n)
	for i := 0; i < n; i++ {
		blocks[i], entries[i] = uint64(vU8()), vU8()
		vAssume(blocks[i] >= 1)
	}
	var wg sync.WaitGroup
	for i := 0; i < n; i++ {
		wg.Add(1)
		i := i
		go func() {
			oks[i], _ = d.NotifyRelayEntryStarted(blocks[i], hex.EncodeToString([]byte{entries[i]}))
			wg.Done()
		}()
	}
	wg.Wait()
	vReach("joined")
	// accepted requests have pairwise different, and newer-than-initial, blocks
	for i := 0; i < n; i++ {
		if !oks[i] {
			continue
		}
		vAssert(g0 == 0 || blocks[i] > g0, "concurrent: accepted a request not newer than the processed one")
		for j := i + 1; j < n; j++ {
			if oks[j] {
				vAssert(g0 == 0 || blocks[i] != blocks[j], "concurrent: two deliveries of one request both processed")
			}
		}
	}
	// the final state is the accepted request with the highest block
	if g0 != 0 {
		max := g0
		for i := 0; i < n; i++ {
			if oks[i] && blocks[i] > max {
				max = blocks[i]
			}
		}
		vAssert(d.currentRequestStartBlock == max, "concurrent: state is not the newest accepted request")
	}
}
