package dkg

import (
	"context"
	"fmt"
	"math/big"

	"github.com/ipfs/go-log/v2"
	"github.com/keep-network/keep-core/pkg/chain"
	"github.com/keep-network/keep-core/pkg/crypto/ephemeral"
	"github.com/keep-network/keep-core/pkg/generator"
	"github.com/keep-network/keep-core/pkg/net"
	"github.com/keep-network/keep-core/pkg/protocol/group"
	"github.com/keep-network/keep-core/pkg/protocol/state"
)

const vN = 5 // group size; dishonest threshold 2

var vOps = []chain.Address{"a", "b", "c", "d", "e"}

type vstubSigning struct{ chain.Signing }

// 1-byte network keys: key k belongs to operator vOps[k]; anything else is a stranger
func (s *vstubSigning) PublicKeyBytesToAddress(k []byte) chain.Address {
	if len(k) != 1 {
		return "x"
	}
	// 'a'+k for a member's key, anything above is nobody's
	return chain.Address(string([]byte{'a' + k[0]}))
}

type vNetMsg struct {
	payload interface{}
	key     byte
	typ     string
	seq     uint64
}

func (m *vNetMsg) TransportSenderID() net.TransportIdentifier { return nil }
func (m *vNetMsg) SenderPublicKey() []byte                    { return []byte{m.key} }
func (m *vNetMsg) Payload() interface{}                       { return m.payload }
func (m *vNetMsg) Type() string                               { return m.typ }
func (m *vNetMsg) Seqno() uint64                              { return m.seq }

const vSession = "session-1"

func vSessionOf(same bool) string {
	if same {
		return vSession
	}
	return "session-2"
}

// vProtocolMsg builds a key-generation message of kind k (0..4) or a foreign payload (5)
func vProtocolMsg(k int, sender group.MemberIndex, session string) (interface{}, string) {
	switch k {
	case 0:
		keys := map[group.MemberIndex]*ephemeral.PublicKey{}
		for i := 1; i <= vN; i++ {
			keys[group.MemberIndex(i)] = &ephemeral.PublicKey{} // a key for the sender's own seat is harmless
		}
		m := &ephemeralPublicKeyMessage{senderID: sender, ephemeralPublicKeys: keys, sessionID: session}
		return m, m.Type()
	case 1:
		m := &tssRoundOneMessage{senderID: sender, sessionID: session}
		return m, m.Type()
	case 2:
		m := &tssRoundTwoMessage{senderID: sender, sessionID: session}
		return m, m.Type()
	case 3:
		m := &tssRoundThreeMessage{senderID: sender, sessionID: session}
		return m, m.Type()
	case 4:
		m := &tssFinalizationMessage{senderID: sender, sessionID: session}
		return m, m.Type()
	}
	return "not a protocol message", "foreign"
}

func vMember(self group.MemberIndex, pre func() (*PreParams, error)) *member {
	mv := group.NewMembershipValidator(log.Logger("verif"), vOps, &vstubSigning{})
	return newMember(log.Logger("verif"), big.NewInt(1000), self, vN, 2, mv, vSession, pre, 1)
}

func vStateOf(kind int, base *state.BaseAsyncState, m *member) state.AsyncState {
	e := &ephemeralKeyPairGeneratingMember{member: m, ephemeralKeyPairs: map[group.MemberIndex]*ephemeral.KeyPair{}}
	s := &symmetricKeyGeneratingMember{ephemeralKeyPairGeneratingMember: e, symmetricKeys: map[group.MemberIndex]ephemeral.SymmetricKey{}}
	r1 := &tssRoundOneMember{symmetricKeyGeneratingMember: s}
	r2 := &tssRoundTwoMember{tssRoundOneMember: r1}
	r3 := &tssRoundThreeMember{tssRoundTwoMember: r2}
	switch kind {
	case 0:
		return &ephemeralKeyPairGenerationState{BaseAsyncState: base, member: e}
	case 1:
		return &symmetricKeyGenerationState{BaseAsyncState: base, member: s}
	case 2:
		return &tssRoundOneState{BaseAsyncState: base, member: r1}
	case 3:
		return &tssRoundTwoState{BaseAsyncState: base, member: r2}
	case 4:
		return &tssRoundThreeState{BaseAsyncState: base, member: r3}
	}
	return &finalizationState{BaseAsyncState: base, member: &finalizingMember{tssRoundThreeMember: r3}}
}

func vCountOf(kind int, base *state.BaseAsyncState) (n int, firstSender [4]group.MemberIndex) {
	put := func(i int, s group.MemberIndex) {
		if i < 4 {
			firstSender[i] = s
		}
	}
	switch kind {
	case 0:
		ms := receivedMessages[*ephemeralPublicKeyMessage](base)
		for i, m := range ms {
			put(i, m.senderID)
		}
		return len(ms), firstSender
	case 1:
		ms := receivedMessages[*tssRoundOneMessage](base)
		for i, m := range ms {
			put(i, m.senderID)
		}
		return len(ms), firstSender
	case 2:
		ms := receivedMessages[*tssRoundTwoMessage](base)
		for i, m := range ms {
			put(i, m.senderID)
		}
		return len(ms), firstSender
	case 3:
		ms := receivedMessages[*tssRoundThreeMessage](base)
		for i, m := range ms {
			put(i, m.senderID)
		}
		return len(ms), firstSender
	}
	ms := receivedMessages[*tssFinalizationMessage](base)
	for i, m := range ms {
		put(i, m.senderID)
	}
	return len(ms), firstSender
}

// VerifC07_StateAdmission: each key-generation state, handed three arbitrary
// network messages, keeps exactly those whose claimed sender is another
// member of the group that is still operating, whose network key holds that
// seat and whose session id is this session's; per sender and message type
// only the first one counts.
func VerifC07_StateAdmission() {
	self := group.MemberIndex(vU8())
	vAssume(self >= 1 && self <= vN)
	m := vMember(self, nil)
	// up to two excluded members, chosen by the solver (0 = nobody)
	d1, d2 := group.MemberIndex(vU8()), group.MemberIndex(vU8())
	vAssume(d1 <= vN && d2 <= vN && d1 != self && d2 != self)
	if d1 != 0 {
		m.group.MarkMemberAsDisqualified(d1)
	}
	if d2 != 0 {
		m.group.MarkMemberAsInactive(d2)
	}
	base := state.NewBaseAsyncState()
	kind := vRange(0, 5)
	st := vStateOf(kind, base, m)
	msgKind := kind // the message type this state (or, for the key-derivation state, the next one) waits for
	if msgKind > 4 {
		msgKind = 4
	}
	if vThorough() {
		msgKind = vRange(0, 4)
	}
	sender := group.MemberIndex(vU8())
	key := vU8()
	vAssume(sender <= vN+1 && key <= vN)
	sess := []byte("session-1")
	sess[8] = vU8()
	payload, typ := vProtocolMsg(msgKind, sender, string(sess))
	vAssert(st.Receive(&vNetMsg{payload: payload, key: key, typ: typ, seq: 1}) == nil, "Receive failed")
	// a payload that is not a protocol message at all is never kept
	vAssert(st.Receive(&vNetMsg{payload: "not a protocol message", key: 0, typ: "foreign", seq: 9}) == nil, "Receive failed")
	want := sender >= 1 && sender <= vN && sender != self && sender != d1 && sender != d2 && int(key) == int(sender)-1 && sess[8] == '1'
	n, senders := vCountOf(msgKind, base)
	vReach("checked")
	if want {
		vReach("kept")
		vAssert(n == 1 && senders[0] == sender, "a same-session message from the holder of an operating seat was not kept")
	} else {
		vAssert(n == 0, "the message history holds a message that must be ignored (excluded member, other session, wrong key, own index, unknown index)")
	}
}

// VerifC07_FirstWins: of several admissible messages of one type, the
// history yields one per sender — the first — in arrival order.
func VerifC07_FirstWins() {
	m := vMember(1, nil)
	base := state.NewBaseAsyncState()
	st := vStateOf(2, base, m)
	var want [3]group.MemberIndex
	var wantTag [3]byte
	nWant := 0
	for i := 0; i < 3; i++ {
		sender := group.MemberIndex(vRange(2, 4))
		tag := vU8()
		payload := &tssRoundOneMessage{senderID: sender, sessionID: vSession, broadcastPayload: []byte{tag}}
		vAssert(st.Receive(&vNetMsg{payload: payload, key: byte(sender - 1), typ: payload.Type(), seq: uint64(i)}) == nil, "Receive failed")
		dup := false
		for j := 0; j < nWant; j++ {
			dup = dup || want[j] == sender
		}
		if !dup {
			want[nWant], wantTag[nWant] = sender, tag
			nWant++
		}
	}
	ms := receivedMessages[*tssRoundOneMessage](base)
	vReach("deduplicated")
	vAssert(len(ms) == nWant, "more or fewer than one message per sender")
	for i := 0; i < nWant; i++ {
		vAssert(ms[i].senderID == want[i] && ms[i].broadcastPayload[0] == wantTag[i], "a later message replaced the sender's first one, or arrival order was lost")
	}
}

// VerifC07_Misbehaved: the result lists exactly the inactive and disqualified members, ascending.
func VerifC07_Misbehaved() {
	g := group.NewGroup(2, vN)
	var bad [vN + 1]bool
	for i := vN; i >= 1; i-- {
		switch vRange(0, 2) {
		case 1:
			g.MarkMemberAsDisqualified(group.MemberIndex(i))
			bad[i] = true
		case 2:
			g.MarkMemberAsInactive(group.MemberIndex(i))
			bad[i] = true
		}
	}
	got := (&Result{Group: g}).MisbehavedMembersIndexes()
	vReach("listed")
	k := 0
	for i := 1; i <= vN; i++ {
		if bad[i] {
			vAssert(k < len(got) && got[k] == group.MemberIndex(i), "misbehaved list is not the ascending list of inactive and disqualified members")
			k++
		}
	}
	vAssert(k == len(got), "misbehaved list has extra entries")
}

// ---- the real Executor.Execute up to the first TSS round ----

var vErrStop = fmt.Errorf("verif: stop before the TSS rounds")
var vRoundOneReached bool

// pre-parameters are asked for exactly when the member enters TSS round one
func vGetNow(p *generator.ParameterPool[PreParams]) (*PreParams, error) {
	vRoundOneReached = true
	return nil, vErrStop
}

func vGenerateKeyPair() (*ephemeral.KeyPair, error) {
	return &ephemeral.KeyPair{PrivateKey: &ephemeral.PrivateKey{}, PublicKey: &ephemeral.PublicKey{}}, nil
}
func vEcdh(pk *ephemeral.PrivateKey, pub *ephemeral.PublicKey) *ephemeral.SymmetricEcdhKey {
	return &ephemeral.SymmetricEcdhKey{}
}

type vChannel struct {
	net.BroadcastChannel
	script []*vNetMsg
	sent   []net.TaggedMarshaler
}

func (c *vChannel) Send(ctx context.Context, m net.TaggedMarshaler, s ...net.RetransmissionStrategy) error {
	c.sent = append(c.sent, m)
	return nil
}
func (c *vChannel) Recv(ctx context.Context, h func(net.Message)) {
	for _, m := range c.script {
		h(m)
	}
}

// VerifC07_Execute: the real Execute with an arbitrary exclusion list (which
// may name the member itself and repeat entries) and up to four arbitrary
// incoming first-phase messages: the member moves on to the first TSS round
// only when every other non-excluded member's own, same-session message has
// arrived — excluded members and foreign sessions never count, and naming
// the member itself in the exclusion list does not exclude it.
func VerifC07_Execute() {
	vRoundOneReached = false
	self := group.MemberIndex(1)
	if vBool() {
		self = 3
	}
	// exclusion list: an arbitrary member (or nobody), then possibly the member
	// itself, then possibly the first entry once more
	var excludedList []group.MemberIndex
	x := group.MemberIndex(vU8())
	vAssume(x <= vN)
	if x != 0 {
		excludedList = append(excludedList, x)
	}
	if vBool() {
		excludedList = append(excludedList, self)
		if x != 0 {
			excludedList = append(excludedList, x)
		}
	}
	nExcl := 0
	if x != 0 && x != self {
		nExcl = 1
	}
	ch := &vChannel{}
	nAccepted := 0
	for j := 1; j <= vN; j++ {
		sender := group.MemberIndex(j)
		if sender == self {
			continue
		}
		// every other member's first-phase message, sent with its own key or a
		// stranger's, in this session or another
		key := vU8()
		vAssume(key == byte(j-1) || key == vN)
		sess := []byte("session-1")
		sess[8] = vU8()
		payload, typ := vProtocolMsg(0, sender, string(sess))
		ch.script = append(ch.script, &vNetMsg{payload: payload, key: key, typ: typ, seq: uint64(j)})
		if sender != x && key == byte(j-1) && sess[8] == '1' {
			nAccepted++
		}
	}
	e := &Executor{tssPreParamsPool: &tssPreParamsPool{}, keyGenerationConcurrency: 1}
	mv := group.NewMembershipValidator(log.Logger("verif"), vOps, &vstubSigning{})
	ctx, cancel := context.WithCancel(context.Background())
	done := make(chan struct{})
	var res *Result
	var err error
	go func() {
		res, err = e.Execute(ctx, log.Logger("verif"), big.NewInt(1000), vSession, self, vN, 2, excludedList, ch, mv)
		close(done)
	}()
	vQuiesce()
	cancel()
	<-done
	vReach("ended")
	vAssert(res == nil && err != nil, "execution cannot have produced a result without the TSS rounds")
	needed := vN - 1 - nExcl
	if vRoundOneReached {
		vReach("round-one")
		vAssert(nAccepted == needed, "the member entered the TSS rounds without a valid first-phase message from every other operating member (an excluded member's, foreign-session or forged message was counted, or the member excluded itself)")
	}
	vAssert(len(ch.sent) >= 1, "the member did not broadcast its first-phase message")
}
