package dkg

import (
	"math/big"

	"github.com/keep-network/keep-core/pkg/tecdsa/common"
)

// VerifIdentityConverter exposes the key-generation identity converter (harness helper).
func VerifIdentityConverter(seed *big.Int) common.IdentityConverter {
	return &identityConverter{seed: seed}
}
