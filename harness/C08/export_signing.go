package signing

import (
	"math/big"

	"github.com/keep-network/keep-core/pkg/tecdsa/common"
)

// VerifIdentityConverter exposes the signing identity converter over the
// party keys stored in a private key share (harness helper).
func VerifIdentityConverter(keys []*big.Int) common.IdentityConverter {
	return &identityConverter{keys: keys}
}
