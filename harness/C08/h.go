package tbtc

import (
	"crypto/ecdsa"
	"math/big"

	tsscommon "github.com/bnb-chain/tss-lib/common"
	tsscrypto "github.com/bnb-chain/tss-lib/crypto"
	"github.com/bnb-chain/tss-lib/ecdsa/keygen"
	"github.com/bnb-chain/tss-lib/tss"
	"github.com/keep-network/keep-common/pkg/persistence"
	"github.com/keep-network/keep-core/pkg/chain"
	"github.com/keep-network/keep-core/pkg/protocol/group"
	"github.com/keep-network/keep-core/pkg/tecdsa"
	"github.com/keep-network/keep-core/pkg/tecdsa/common"
	"github.com/keep-network/keep-core/pkg/tecdsa/dkg"
	"github.com/keep-network/keep-core/pkg/tecdsa/signing"
)

// the decimal label of a party key is only a display id
func vBigText(x *big.Int, base int) string { return "k" }

// registry plumbing (its own behaviour is C38's subject)
func vStorageKey08(k *ecdsa.PublicKey) string          { return "wallet" }
func vPublicKeyHash08(k *ecdsa.PublicKey) [20]byte      { return [20]byte{1} }
func vWalletID08(k *ecdsa.PublicKey) ([32]byte, error)  { return [32]byte{2}, nil }
func vSignerMarshal08(s *signer) ([]byte, error)        { return []byte{byte(s.signingGroupMemberIndex)}, nil }

type vdisk08 struct {
	persistence.ProtectedHandle
	saved int
}

func (d *vdisk08) Save(data []byte, dir, name string) error { d.saved++; return nil }
func (d *vdisk08) ReadAll() (<-chan persistence.DataDescriptor, <-chan error) {
	dc := make(chan persistence.DataDescriptor)
	ec := make(chan error)
	close(dc)
	close(ec)
	return dc, ec
}

// vSeed: an arbitrary 256-bit session seed (top byte non-zero, room for the
// member index to be added without a carry out of 256 bits)
func vSeed() *big.Int {
	var b [32]byte
	for i := range b {
		b[i] = vU8()
	}
	vAssume(b[0] != 0 && b[0] != 0xff)
	return new(big.Int).SetBytes(b[:])
}

func vIndexMapping(n, quorum int) {
	seed := vSeed()
	params := &GroupParameters{GroupSize: n, GroupQuorum: quorum, HonestThreshold: quorum}
	g := group.NewGroup(n-quorum, n)
	selected := make([]chain.Address, n)
	nOperating := 0
	operatingMask := make([]bool, n+1)
	for m := 1; m <= n; m++ {
		selected[m-1] = chain.Address([]byte{'o', 'p', byte('0' + m)})
		if vBool() {
			operatingMask[m] = true
			nOperating++
		} else if m%2 == 1 {
			g.MarkMemberAsDisqualified(group.MemberIndex(m))
		} else {
			g.MarkMemberAsInactive(group.MemberIndex(m))
		}
	}
	vAssume(nOperating >= quorum)
	operating := g.OperatingMemberIndexes()

	// key generation: the parties are the operating members, identified by
	// seed + index; tss-lib stores the sorted party keys as Ks in every share
	// (keygen round 1: save.Ks = Parties().IDs().Keys())
	dkgConv := dkg.VerifIdentityConverter(seed)
	_, ids := common.GenerateTssPartiesIDs(operating[0], operating, dkgConv)
	ks := tss.SortPartyIDs(ids).Keys()
	vAssert(len(ks) == nOperating, "party list does not cover the operating members")

	// the final signing group as the wallet stores it (handed over in reverse
	// order: the function must not depend on the order it is given)
	rev := make([]group.MemberIndex, len(operating))
	for i, m := range operating {
		rev[len(operating)-1-i] = m
	}
	finalOps, finalIdx, err := finalSigningGroup(selected, rev, params)
	vAssert(err == nil && len(finalOps) == nOperating && len(finalIdx) == nOperating, "final signing group has the wrong size")
	vReach("final-group")

	sigConv := signing.VerifIdentityConverter(ks)
	rank := 0
	for m := 1; m <= n; m++ {
		mi := group.MemberIndex(m)
		r, ok := finalIdx[mi]
		dkgParty := dkgConv.MemberIndexToTssPartyID(mi)
		vAssert(dkgConv.TssPartyIDToMemberIndex(dkgParty) == mi, "key-generation identity conversion does not round-trip")
		if !operatingMask[m] {
			vAssert(!ok, "a member excluded at key generation got a seat in the final signing group")
			vAssert(sigConv.TssPartyIDToMemberIndex(dkgParty) == 0, "an excluded member's party key maps to a signing seat")
			continue
		}
		rank++
		vAssert(ok && int(r) == rank, "final index is not the member's rank among operating members")
		vAssert(string(finalOps[r-1]) == string(selected[m-1]), "final operator list does not carry the member's operator at its final index")
		// the stored index leads back to the party identity used at key generation
		vAssert(sigConv.MemberIndexToTssPartyIDKey(r).Cmp(dkgConv.MemberIndexToTssPartyIDKey(mi)) == 0, "stored member index maps to another member's key-generation party key")
		vAssert(sigConv.TssPartyIDToMemberIndex(dkgParty) == r, "key-generation party identity maps to another signing seat")
	}
	// party keys below the seed belong to nobody
	lowKey := vSeed()
	vAssume(lowKey.Cmp(seed) < 0)
	low := tss.NewPartyID("x", "x", lowKey)
	vAssert(dkgConv.TssPartyIDToMemberIndex(low) == 0, "a party key below the seed maps to a member")

	// registerSigner: a seat for operating members only, carrying the final
	// index and the final operators
	self := group.MemberIndex(vRange(1, n))
	disk := &vdisk08{}
	reg, rerr := newWalletRegistry(disk, vWalletID08)
	vAssert(rerr == nil, "registry construction failed")
	de := &dkgExecutor{groupParameters: params, walletRegistry: reg}
	share := tecdsa.NewPrivateKeyShare(keygen.LocalPartySaveData{
		LocalSecrets: keygen.LocalSecrets{ShareID: dkgConv.MemberIndexToTssPartyIDKey(self)},
		Ks:           ks,
		ECDSAPub:     tsscrypto.NewECPointNoCurveCheck(nil, big.NewInt(7), big.NewInt(9)),
	})
	s, serr := de.registerSigner(&dkg.Result{Group: g, PrivateKeyShare: share}, self, selected)
	if operatingMask[self] {
		vReach("registered")
		vAssert(serr == nil && s != nil, "an operating member could not register its signer")
		vAssert(s.signingGroupMemberIndex == finalIdx[self] && len(s.wallet.signingGroupOperators) == nOperating, "the registered signer does not carry the final index / final operators")
		vAssert(disk.saved == 1, "the signer was not persisted")
		// ... and with that index the member finds its own key-generation identity again
		vAssert(sigConv.MemberIndexToTssPartyIDKey(s.signingGroupMemberIndex).Cmp(share.Data().ShareID) == 0, "the registered index does not lead back to the member's own share id")
	} else {
		vAssert(serr != nil && s == nil && disk.saved == 0, "a member excluded at key generation registered a signer")
	}
}

func VerifC08_IndexMapping() {
	if vThorough() {
		vIndexMapping(7, 4)
	} else {
		vIndexMapping(5, 3)
	}
}

// VerifC08_Signature: the signature handed out is tss-lib's, field for field.
func VerifC08_Signature() {
	var r, s [32]byte
	for i := range r {
		r[i], s[i] = vU8(), vU8()
	}
	rec := vU8()
	sig := tecdsa.NewSignature(&tsscommon.SignatureData{R: r[:], S: s[:], SignatureRecovery: []byte{rec}})
	vReach("sig")
	vAssert(sig.R.Cmp(new(big.Int).SetBytes(r[:])) == 0 && sig.S.Cmp(new(big.Int).SetBytes(s[:])) == 0 && sig.RecoveryID == int8(rec), "signature fields were altered")
	other := tecdsa.NewSignature(&tsscommon.SignatureData{R: r[:], S: s[:], SignatureRecovery: []byte{rec}})
	vAssert(sig.Equals(other), "equal signatures compare different")
	var r2 [32]byte
	copy(r2[:], r[:])
	r2[vRange(0, 31)] ^= 1 << uint(vRange(0, 7))
	diff := tecdsa.NewSignature(&tsscommon.SignatureData{R: r2[:], S: s[:], SignatureRecovery: []byte{rec}})
	vAssert(!sig.Equals(diff), "different signatures compare equal")
}
