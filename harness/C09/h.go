package retry

import (
	"github.com/keep-network/keep-core/pkg/chain"
)

var vNames = []chain.Address{"0xaa", "0xbb", "0xcc", "0xdd", "0xee"}

// vLayout builds an arbitrary seat layout: nSeats seats, each held by one of
// nOps operators (arbitrary assignment, so uneven seat counts are included).
func vLayout(maxSeats, maxOps int) ([]chain.Address, []int) {
	nSeats := vRange(1, maxSeats)
	seats := make([]chain.Address, nSeats)
	idx := make([]int, nSeats)
	for s := 0; s < nSeats; s++ {
		k := vRange(0, maxOps-1)
		idx[s] = k
		seats[s] = vNames[k]
	}
	return seats, idx
}

func vCount(idx []int, k int) int {
	c := 0
	for _, x := range idx {
		if x == k {
			c++
		}
	}
	return c
}

// vCheckSelection asserts the structural clauses on one result and returns
// the bitmask of excluded operators.
func vCheckSelection(seats []chain.Address, idx []int, result []chain.Address, requested uint, maxOps int, what string) int {
	// sub-list in input order + per-operator all-or-nothing
	keep := make([]int, maxOps) // 0 unknown, 1 kept, 2 dropped
	j := 0
	for s := 0; s < len(seats); s++ {
		kept := j < len(result) && result[j] == seats[s]
		if kept {
			j++
		}
		st := 2
		if kept {
			st = 1
		}
		if keep[idx[s]] == 0 {
			keep[idx[s]] = st
		}
		vAssert(keep[idx[s]] == st, what+": an operator's seats are partly kept and partly dropped")
	}
	vAssert(j == len(result), what+": result is not a sub-list of the group members in their order")
	vAssert(uint(len(result)) >= requested, what+": fewer seats selected than requested")
	mask := 0
	for k := 0; k < maxOps; k++ {
		if keep[k] == 2 {
			mask |= 1 << k
		}
	}
	return mask
}

func vBounds() (int, int) {
	if vThorough() {
		return 5, 4
	}
	return 4, 3
}

// Signing retries: structural clauses for every layout, seed, retry count and
// requested count.
func VerifC09_Signing() {
	maxSeats, maxOps := vBounds()
	seats, idx := vLayout(maxSeats, maxOps)
	seed := vI64()
	retry := uint(vU8())
	requested := uint(vRange(0, len(seats)+1))
	res, err := EvaluateRetryParticipantsForSigning(seats, seed, retry, requested)
	if int(requested) > len(seats) {
		vAssert(err != nil, "signing: too many requested seats must be an error")
		return
	}
	vAssert(err == nil, "signing: unexpected error")
	vReach("signing-result")
	vCheckSelection(seats, idx, res, requested, maxOps, "signing")
}

// Key generation retries r = 0,1,2,...: structural clauses on every result,
// pairwise distinct exclusion sets, singles before pairs before triplets,
// and an error exactly when r >= #singles + #pairs + #triplets (counted by a
// reference model over the true seat sums).
func VerifC09_KeyGeneration() {
	maxSeats, maxOps := vBounds()
	seats, idx := vLayout(maxSeats, maxOps)
	seed := vI64()
	requested := uint(vRange(0, len(seats)))
	n := len(seats)
	cnt := make([]int, maxOps)
	for k := range cnt {
		cnt[k] = vCount(idx, k)
	}
	elig := func(k int) bool { return cnt[k] > 0 && n-cnt[k] >= int(requested) }
	singles, pairs, triplets := 0, 0, 0
	for a := 0; a < maxOps; a++ {
		if !elig(a) {
			continue
		}
		singles++
		for b := a + 1; b < maxOps; b++ {
			if !elig(b) {
				continue
			}
			if n-cnt[a]-cnt[b] >= int(requested) {
				pairs++
			}
			for c := b + 1; c < maxOps; c++ {
				if elig(c) && n-cnt[a]-cnt[b]-cnt[c] >= int(requested) {
					triplets++
				}
			}
		}
	}
	total := singles + pairs + triplets
	var masks []int
	popcount := func(m int) int {
		c := 0
		for ; m != 0; m &= m - 1 {
			c++
		}
		return c
	}
	for r := 0; r <= total; r++ {
		res, err := EvaluateRetryParticipantsForKeyGeneration(seats, seed, uint(r), requested)
		if r >= total {
			vAssert(err != nil, "keygen: retry count beyond all singles, pairs and triplets must be an error")
			continue
		}
		vAssert(err == nil, "keygen: error although an untried exclusion set remains")
		m := vCheckSelection(seats, idx, res, requested, maxOps, "keygen")
		size := popcount(m)
		want := 1
		if r >= singles {
			want = 2
		}
		if r >= singles+pairs {
			want = 3
		}
		vAssert(size == want, "keygen: retries must exclude singles, then pairs, then triplets")
		for _, o := range masks {
			vAssert(o != m, "keygen: two retry counts exclude the same operator set")
		}
		masks = append(masks, m)
	}
	vReach("keygen-all-retries")
}

// Determinism: an evaluation under every possible map iteration order agrees
// with the evaluation under the canonical (insertion) order.
func VerifC09_DeterminismSigning() {
	seats, _ := vLayout(3, 3)
	seed := vI64()
	retry := uint(vU8())
	requested := uint(vRange(1, len(seats)))
	vMapOrder("insertion")
	a, errA := EvaluateRetryParticipantsForSigning(seats, seed, retry, requested)
	vMapOrder("all")
	b, errB := EvaluateRetryParticipantsForSigning(seats, seed, retry, requested)
	vAssert((errA == nil) == (errB == nil), "signing selection error depends on map order")
	vAssert(len(a) == len(b), "signing selection depends on map iteration order")
	for i := range a {
		vAssert(a[i] == b[i], "signing selection depends on map iteration order")
	}
	vReach("determinism")
}

func VerifC09_DeterminismKeyGeneration() {
	seats, _ := vLayout(3, 3)
	seed := vI64()
	requested := uint(vRange(1, len(seats)))
	r := uint(vRange(0, 3))
	vMapOrder("insertion")
	c, errC := EvaluateRetryParticipantsForKeyGeneration(seats, seed, r, requested)
	vMapOrder("all")
	d, errD := EvaluateRetryParticipantsForKeyGeneration(seats, seed, r, requested)
	vAssert((errC == nil) == (errD == nil), "keygen selection error depends on map order")
	vAssert(len(c) == len(d), "keygen selection depends on map iteration order")
	for i := range c {
		vAssert(c[i] == d[i], "keygen selection depends on map iteration order")
	}
	vReach("determinism")
}
