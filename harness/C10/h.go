package tbtc

import (
	"github.com/ipfs/go-log/v2"
	"github.com/keep-network/keep-core/pkg/chain"
	"github.com/keep-network/keep-core/pkg/protocol/group"
)

func vSeats() int {
	if vThorough() {
		return 4
	}
	return 3
}

// vOperators: n seats held by operators with 1-character symbolic addresses,
// so every seat-to-operator layout (equality pattern and address order) is
// covered by forking on the comparisons the code itself makes.
func vOperators(n int) chain.Addresses {
	ops := make(chain.Addresses, n)
	for i := range ops {
		c := vU8()
		vAssume(c >= 'a' && c <= 'd')
		ops[i] = chain.Address(string([]byte{c}))
	}
	return ops
}

// vReady returns a symbolic ready subset (ascending) and the same set in
// another order.
func vReady(n int) ([]group.MemberIndex, []group.MemberIndex, []bool) {
	isReady := make([]bool, n+1)
	var a []group.MemberIndex
	for m := 1; m <= n; m++ {
		if vBool() {
			isReady[m] = true
			a = append(a, group.MemberIndex(m))
		}
	}
	b := make([]group.MemberIndex, len(a))
	switch vRange(0, 2) {
	case 0: // reversed
		for i := range a {
			b[len(a)-1-i] = a[i]
		}
	case 1: // rotated
		for i := range a {
			b[(i+1)%len(a)] = a[i]
		}
	default: // first two swapped
		copy(b, a)
		if len(b) >= 2 {
			b[0], b[1] = b[1], b[0]
		}
	}
	return a, b, isReady
}

func vSameList(x, y []group.MemberIndex) bool {
	if len(x) != len(y) {
		return false
	}
	same := true
	for i := range x {
		same = same && x[i] == y[i]
	}
	return same
}

func vContains(l []group.MemberIndex, m group.MemberIndex) bool {
	f := false
	for _, x := range l {
		f = f || x == m
	}
	return f
}

func VerifC10_Signing() {
	n := vSeats()
	ops := vOperators(n)
	readyA, readyB, isReady := vReady(n)
	threshold := vRange(1, n)
	vAssume(len(readyA) >= threshold)
	seed := vI64()
	attempt := uint(vU8())
	vAssume(attempt >= 1)
	mk := func(self int) *signingRetryLoop {
		return &signingRetryLoop{logger: log.Logger("verif"), signingGroupMemberIndex: group.MemberIndex(self),
			signingGroupOperators: ops, groupParameters: &GroupParameters{GroupSize: n, GroupQuorum: threshold, HonestThreshold: threshold},
			attemptCounter: attempt, attemptSeed: seed}
	}
	exA, errA := mk(1).performMembersSelection(readyA)
	exB, errB := mk(n).performMembersSelection(readyB)
	vAssert(errA == nil && errB == nil, "signing selection failed although at least the threshold of members is ready")
	vReach("selected")
	vAssert(vSameList(exA, exB), "two members computed different excluded lists from the same ready set")
	included := 0
	for m := 1; m <= n; m++ {
		if !vContains(exA, group.MemberIndex(m)) {
			included++
			vAssert(isReady[m], "a member that is not ready was included in the signing attempt")
		}
	}
	vAssert(included == threshold, "a signing attempt must include exactly the honest threshold of members")
	vAssert(included+len(exA) == n, "excluded list has duplicates or unknown members")
}

func VerifC10_Dkg() {
	n := vSeats()
	ops := vOperators(n)
	readyA, readyB, isReady := vReady(n)
	quorum := vRange(1, n)
	vAssume(len(readyA) >= quorum)
	seed := vI64()
	attempt := uint(vU8())
	vAssume(attempt >= 1 && attempt <= 4)
	mk := func(self int) *dkgRetryLoop {
		return &dkgRetryLoop{logger: log.Logger("verif"), memberIndex: group.MemberIndex(self), selectedOperators: ops,
			groupParameters: &GroupParameters{GroupSize: n, GroupQuorum: quorum, HonestThreshold: quorum},
			attemptCounter:  attempt, attemptSeed: seed}
	}
	exA, errA := mk(1).performMembersSelection(readyA)
	exB, errB := mk(n).performMembersSelection(readyB)
	vAssert((errA == nil) == (errB == nil), "one member's selection failed while another's succeeded")
	if errA != nil {
		vReach("retry-exhausted")
		vAssert(attempt > 1, "the first attempt must not fail")
		return
	}
	vReach("selected")
	vAssert(vSameList(exA, exB), "two members computed different excluded lists from the same ready set")
	included := 0
	for m := 1; m <= n; m++ {
		in := !vContains(exA, group.MemberIndex(m))
		if in {
			included++
			vAssert(isReady[m], "a member that is not ready was included in the key generation attempt")
		}
		if attempt == 1 {
			vAssert(in == isReady[m], "the first attempt must exclude exactly the members that are not ready")
		}
		// an operator is qualified as a whole: ready seats of one operator are all in or all out
		for k := m + 1; k <= n; k++ {
			if ops[m-1] == ops[k-1] && isReady[m] && isReady[k] {
				vAssert(in == !vContains(exA, group.MemberIndex(k)), "ready seats of one operator were split between included and excluded")
			}
		}
	}
	vAssert(included >= quorum, "a key generation attempt must include at least the quorum when selection succeeds")
	vAssert(included+len(exA) == n, "excluded list has duplicates or unknown members")
}
