package tbtc

import (
	"context"
	"fmt"
	"math/big"
	"sync"

	"github.com/ipfs/go-log/v2"
	"github.com/keep-network/keep-core/pkg/chain"
	"github.com/keep-network/keep-core/pkg/protocol/group"
	"github.com/keep-network/keep-core/pkg/tecdsa/dkg"
	"github.com/keep-network/keep-core/pkg/tecdsa/signing"
)

var vErr = fmt.Errorf("verif: injected failure")

const vMaxAttempts = 8

// vscript holds the pre-drawn outcome of every environment answer, per attempt.
type vscript struct {
	n                                                   int // attempts driven
	curBlock                                            [vMaxAttempts + 2]uint64
	curErr, waitErr, attemptErr, signalErr, doneErr     [vMaxAttempts + 2]bool
	announce                                            [vMaxAttempts + 2]int // 0 error, 1 too few ready, 2 all ready
	selection                                           [vMaxAttempts + 2]int // 0 nobody excluded, 1 this member excluded, 2 another member excluded, 3 error
}

func vDrawScript(n int, withSelection bool) *vscript {
	s := &vscript{n: n}
	for i := 1; i <= n+1; i++ {
		s.curBlock[i], s.curErr[i], s.waitErr[i] = vU64(), vBool(), vBool()
		// symbolic (not vRange): the outcome forks only when that attempt is reached
		s.announce[i] = int(vU8())
		vAssume(s.announce[i] <= 2)
		if withSelection {
			s.selection[i] = int(vU8())
			vAssume(s.selection[i] <= 3)
		}
		s.attemptErr[i], s.signalErr[i], s.doneErr[i] = vBool(), vBool(), vBool()
	}
	return s
}

type vrecord struct {
	mu        sync.Mutex
	waits     []uint64 // every block passed to waitForBlockFn (direct and from deadline goroutines)
	announced []uint   // attempt numbers announced
	attempts  []uint
}

type vstubAnnouncer struct {
	s       *vscript
	r       *vrecord
	counter *uint
	size    int
	check   func(n uint)
}

func (a *vstubAnnouncer) Announce(ctx context.Context, m group.MemberIndex, session string) ([]group.MemberIndex, error) {
	n := *a.counter
	a.r.announced = append(a.r.announced, n)
	if a.check != nil {
		a.check(n)
	}
	switch a.s.announce[n] {
	case 0:
		return nil, vErr
	case 1:
		return []group.MemberIndex{}, nil
	}
	all := make([]group.MemberIndex, a.size)
	for i := range all {
		all[i] = group.MemberIndex(i + 1)
	}
	return all, nil
}

type vstubDoneCheck struct {
	s        *vscript
	counter  *uint
	listened func(attempt, timeout uint64, members []group.MemberIndex)
}

func (d *vstubDoneCheck) listen(ctx context.Context, msg *big.Int, attempt uint64, timeout uint64, members []group.MemberIndex) {
	d.listened(attempt, timeout, members)
}
func (d *vstubDoneCheck) signalDone(ctx context.Context, m group.MemberIndex, msg *big.Int, attempt uint64, r *signing.Result, end uint64) error {
	if d.s.signalErr[*d.counter] {
		return vErr
	}
	return nil
}
func (d *vstubDoneCheck) waitUntilAllDone(ctx context.Context) (*signing.Result, uint64, error) {
	if d.s.doneErr[*d.counter] {
		return nil, 0, vErr
	}
	return &signing.Result{}, 0, nil
}

var vOps = chain.Addresses{"0xaa", "0xbb", "0xcc"}

// replacement for the member selection (C10's subject) in the unit that
// explores excluded/skipped attempts
var vSelScript *vscript
var vSelCounter *uint
var vSelSelf group.MemberIndex

func vSelection() ([]group.MemberIndex, error) {
	switch vSelScript.selection[*vSelCounter] {
	case 1:
		return []group.MemberIndex{vSelSelf}, nil
	case 2:
		return []group.MemberIndex{vSelSelf%3 + 1}, nil
	case 3:
		return nil, vErr
	}
	return []group.MemberIndex{}, nil
}
func vSelSigning(srl *signingRetryLoop, ready []group.MemberIndex) ([]group.MemberIndex, error) {
	return vSelection()
}
func vSelDkg(drl *dkgRetryLoop, ready []group.MemberIndex) ([]group.MemberIndex, error) {
	return vSelection()
}

func vAttempts() int {
	if vThorough() {
		return 5
	}
	return 3
}

func vSigningLoop(withSelection bool) {
	n := vAttempts()
	s := vDrawScript(n, withSelection)
	r := &vrecord{}
	start := vU64()
	vAssume(start < 1<<62) // no wrap-around within the explored attempts
	size := 1 // trivial group: the real member selection has nothing to choose
	if withSelection {
		size = 3
	}
	self := group.MemberIndex(vRange(1, size))
	W := uint64(signingAttemptMaximumBlocks())
	annStart := func(k uint) uint64 { return start + uint64(k-1)*W + signingAttemptAnnouncementDelayBlocks }
	annEnd := func(k uint) uint64 { return annStart(k) + signingAttemptAnnouncementActiveBlocks }
	timeout := func(k uint) uint64 { return annEnd(k) + signingAttemptMaximumProtocolBlocks }
	ctx, cancel := context.WithCancel(context.Background())
	srl := &signingRetryLoop{
		logger: log.Logger("verif"), message: big.NewInt(77), signingGroupMemberIndex: self,
		signingGroupOperators: vOps[:size], groupParameters: &GroupParameters{GroupSize: size, GroupQuorum: size, HonestThreshold: size},
		attemptStartBlock: start, attemptSeed: 5,
	}
	vSelScript, vSelCounter, vSelSelf = s, &srl.attemptCounter, self
	var lastCur uint64
	var lastCurOK bool
	srl.announcer = &vstubAnnouncer{s: s, r: r, counter: &srl.attemptCounter, size: size, check: func(k uint) {
		vAssert(lastCurOK && annEnd(k) > lastCur, "announced for an attempt whose announcement phase had already passed (or without knowing the current block)")
	}}
	srl.doneCheck = &vstubDoneCheck{s: s, counter: &srl.attemptCounter, listened: func(attempt, to uint64, members []group.MemberIndex) {
		vAssert(attempt == uint64(srl.attemptCounter) && to == timeout(srl.attemptCounter), "done check listens with the wrong attempt number or timeout block")
	}}
	waitFn := func(c context.Context, b uint64) error {
		r.mu.Lock()
		r.waits = append(r.waits, b)
		r.mu.Unlock()
		k := srl.attemptCounter
		if k >= 1 && int(k) <= n && b == annStart(k) && s.waitErr[k] {
			return vErr
		}
		return nil
	}
	curCalls := 0
	curFn := func() (uint64, error) {
		k := srl.attemptCounter
		curCalls++
		if int(k) > n || k == 0 || curCalls > n+1 { // bound the run (also when an implementation repeats an attempt number)
			cancel()
			return 0, vErr
		}
		// current-block answers are scripted per loop iteration (not per attempt
		// number), so an implementation that repeats a number sees fresh answers
		i := curCalls
		lastCur, lastCurOK = s.curBlock[i], !s.curErr[i]
		if s.curErr[i] {
			return 0, vErr
		}
		return s.curBlock[i], nil
	}
	var lastAttempt uint
	attemptFn := func(p *signingAttemptParams) (*signing.Result, uint64, error) {
		k := srl.attemptCounter
		r.attempts = append(r.attempts, p.number)
		vReach("attempt")
		vAssert(p.number == k, "attempt function got the wrong attempt number")
		vAssert(p.startBlock == annEnd(k) && p.timeoutBlock == timeout(k), "attempt n must run in the window every member derives from the common start block")
		if lastAttempt != 0 {
			vAssert(timeout(lastAttempt) < annStart(k), "attempt windows overlap")
		}
		lastAttempt = k
		vObserve("attempt", p.number)
		vObserve("start", p.startBlock)
		vObserve("timeout", p.timeoutBlock)
		if s.attemptErr[k] {
			return nil, 0, vErr
		}
		return &signing.Result{}, p.startBlock + 3, nil
	}
	res, err := srl.start(ctx, waitFn, curFn, attemptFn)
	vObserve("err", err != nil)
	if err == nil {
		vReach("result")
		vAssert(res.attemptTimeoutBlock == timeout(srl.attemptCounter), "result reports the wrong attempt timeout block")
	}
	vQuiesce()
	// every block any waiter was asked for belongs to some attempt's schedule
	r.mu.Lock()
	var sched []uint64 // precomputed so that the membership test folds into one term
	for k := uint(1); int(k) <= n; k++ {
		sched = append(sched, annStart(k), annEnd(k), timeout(k))
	}
	for _, b := range r.waits {
		ok := false
		for _, x := range sched {
			ok = ok || b == x
		}
		vAssert(ok, "a deadline was set on a block that is not part of any attempt's schedule")
	}
	r.mu.Unlock()
	// announcements happen in attempt order, each at most once
	for i := 1; i < len(r.announced); i++ {
		vAssert(r.announced[i] > r.announced[i-1], "an attempt was announced twice or out of order")
	}
	cancel()
}

func VerifC11_SigningWindows()        { vSigningLoop(false) }
func VerifC11_SigningWindowsSkipped() { vSigningLoop(true) }

func vDkgLoop(withSelection bool) {
	n := vAttempts()
	s := vDrawScript(n, withSelection)
	r := &vrecord{}
	start := vU64()
	vAssume(start < 1<<62)
	size := 1
	if withSelection {
		size = 3
	}
	self := group.MemberIndex(vRange(1, size))
	W := uint64(dkgAttemptMaximumBlocks())
	annStart := func(k uint) uint64 { return start + uint64(k-1)*W + dkgAttemptAnnouncementDelayBlocks }
	annEnd := func(k uint) uint64 { return annStart(k) + dkgAttemptAnnouncementActiveBlocks }
	timeout := func(k uint) uint64 { return annEnd(k) + dkgAttemptMaximumProtocolBlocks }
	ctx, cancel := context.WithCancel(context.Background())
	drl := &dkgRetryLoop{
		logger: log.Logger("verif"), seed: big.NewInt(77), memberIndex: self, selectedOperators: vOps[:size],
		groupParameters:   &GroupParameters{GroupSize: size, GroupQuorum: size, HonestThreshold: size},
		attemptStartBlock: start, attemptSeed: 5, attemptDelayBlocks: 5, attemptsLimit: uint(n),
	}
	vSelScript, vSelCounter, vSelSelf = s, &drl.attemptCounter, self
	drl.announcer = &vstubAnnouncer{s: s, r: r, counter: &drl.attemptCounter, size: size}
	waitFn := func(c context.Context, b uint64) error {
		r.mu.Lock()
		r.waits = append(r.waits, b)
		r.mu.Unlock()
		k := drl.attemptCounter
		if k >= 1 && int(k) <= n && b == annStart(k) && s.waitErr[k] {
			return vErr
		}
		return nil
	}
	var lastAttempt uint
	attemptFn := func(p *dkgAttemptParams) (*dkg.Result, error) {
		k := drl.attemptCounter
		vReach("attempt")
		vAssert(p.number == k, "attempt function got the wrong attempt number")
		vAssert(p.startBlock == annEnd(k) && p.timeoutBlock == timeout(k), "attempt n must run in the window every member derives from the common start block")
		if lastAttempt != 0 {
			vAssert(timeout(lastAttempt) < annStart(k), "attempt windows overlap")
		}
		lastAttempt = k
		vObserve("attempt", p.number)
		vObserve("start", p.startBlock)
		vObserve("timeout", p.timeoutBlock)
		if s.attemptErr[k] {
			return nil, vErr
		}
		return &dkg.Result{}, nil
	}
	_, err := drl.start(ctx, waitFn, attemptFn)
	vObserve("err", err != nil)
	vQuiesce()
	r.mu.Lock()
	var sched []uint64
	for k := uint(1); int(k) <= n; k++ {
		sched = append(sched, annStart(k), annEnd(k))
	}
	for _, b := range r.waits {
		ok := false
		for _, x := range sched {
			ok = ok || b == x
		}
		vAssert(ok, "a deadline was set on a block that is not part of any attempt's schedule")
	}
	r.mu.Unlock()
	for i := 1; i < len(r.announced); i++ {
		vAssert(r.announced[i] > r.announced[i-1], "an attempt was announced twice or out of order")
	}
	cancel()
}

func VerifC11_DkgWindows()        { vDkgLoop(false) }
func VerifC11_DkgWindowsSkipped() { vDkgLoop(true) }
