package result

import (
	"github.com/ipfs/go-log/v2"
	"github.com/keep-network/keep-core/pkg/chain"
	"github.com/keep-network/keep-core/pkg/protocol/group"
)

var vKeyAddr = []chain.Address{"a", "b", "c", "x"} // 1-byte network keys; "x" is not a group member

type vstubSigning struct{ chain.Signing }

func (s *vstubSigning) PublicKeyBytesToAddress(k []byte) chain.Address {
	if len(k) != 1 || int(k[0]) >= len(vKeyAddr) {
		return "x"
	}
	return vKeyAddr[k[0]]
}

// vScenario: a 4-seat group in which operator "a" holds two seats, a receiving
// member, optionally one inactive and one disqualified member, and a message
// with an arbitrary claimed index (0..255) sent with an arbitrary key.
func vScenario() (ops []chain.Address, self group.MemberIndex, g *group.Group, mv *group.MembershipValidator, sender group.MemberIndex, key byte, want bool) {
	ops = []chain.Address{"a", "b", "a", "c"}
	if vBool() {
		ops = []chain.Address{"b", "a", "a", "c"}
	}
	n := len(ops)
	self = group.MemberIndex(vU8())
	vAssume(self >= 1 && int(self) <= n)
	g = group.NewGroup(2, n)
	ia, dq := int(vU8()), int(vU8()) // symbolic: which member (if any) is inactive / disqualified
	vAssume(ia <= n && dq <= n)
	if ia != 0 {
		g.MarkMemberAsInactive(group.MemberIndex(ia))
	}
	if dq != 0 {
		g.MarkMemberAsDisqualified(group.MemberIndex(dq))
	}
	mv = group.NewMembershipValidator(log.Logger("verif"), ops, &vstubSigning{})
	sender = group.MemberIndex(vU8())
	key = vU8()
	vAssume(key <= 3)
	holdsSeat := sender >= 1 && int(sender) <= n && key <= 2 && ops[int(sender)-1] == vKeyAddr[key]
	want = sender != self && holdsSeat && int(sender) != ia && int(sender) != dq
	return
}

func vCheck(got, want bool) {
	if want {
		vReach("accepted")
	} else {
		vReach("ignored")
	}
	vAssert(!got || want, "a message was accepted although its claimed member index is not held by the sending key, is the receiver's own, or belongs to an excluded member")
	vAssert(got || !want, "a message from the legitimate holder of an operating seat was ignored")
}

func VerifC12_BeaconResult() {
	_, self, g, mv, sender, key, want := vScenario()
	m := &SigningMember{logger: log.Logger("verif"), index: self, group: g, membershipValidator: mv}
	vCheck(m.shouldAcceptMessage(sender, []byte{key}), want)
}
