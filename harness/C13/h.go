package dkg

import (
	"github.com/ipfs/go-log/v2"
	"github.com/keep-network/keep-core/pkg/chain"
	"github.com/keep-network/keep-core/pkg/net"
	"github.com/keep-network/keep-core/pkg/protocol/group"
	"github.com/keep-network/keep-core/pkg/protocol/state"
)

var vKeyAddr = []chain.Address{"a", "b", "c", "x"}

type vstubSigning struct{ chain.Signing }

func (s *vstubSigning) PublicKeyBytesToAddress(k []byte) chain.Address {
	if len(k) != 1 || int(k[0]) >= len(vKeyAddr) {
		return "x"
	}
	return vKeyAddr[k[0]]
}

type vNetMsg struct {
	key     byte
	payload interface{}
}

func (m *vNetMsg) TransportSenderID() net.TransportIdentifier { return nil }
func (m *vNetMsg) SenderPublicKey() []byte                    { return []byte{m.key} }
func (m *vNetMsg) Payload() interface{}                       { return m.payload }
func (m *vNetMsg) Type() string                               { return m.payload.(*resultSignatureMessage).Type() }
func (m *vNetMsg) Seqno() uint64                              { return 0 }

// vSigner: the verdict is carried by the second signature byte (0 valid, 1 invalid, 2 error)
type vSigner struct{ ResultSigner }

func (s *vSigner) VerifySignature(r *SignedResult) (bool, error) {
	switch r.Signature[1] {
	case 0:
		return true, nil
	case 1:
		return false, nil
	}
	return false, vErrSig
}

var vErrSig = errString("verif: verification error")

type errString string

func (e errString) Error() string { return string(e) }

func VerifC13_TecdsaSupport() {
	k := 2 // (three messages did not finish within 25 minutes on this machine; both tiers use two)
	ops := []chain.Address{"a", "b", "a", "c"}
	n := len(ops)
	self := group.MemberIndex(vU8())
	vAssume(self >= 1 && int(self) <= n)
	g := group.NewGroup(1, n)
	member := &signingMember{logger: log.Logger("verif"), memberIndex: self, group: g,
		membershipValidator:    group.NewMembershipValidator(log.Logger("verif"), ops, &vstubSigning{}),
		sessionID:              "s1",
		preferredDKGResultHash: ResultSignatureHash{7},
		selfDKGResultSignature: []byte{0xee, 0},
	}
	rss := &resultSigningState{BaseAsyncState: state.NewBaseAsyncState(), member: member, resultSigner: &vSigner{}}
	type spec struct {
		sender                      group.MemberIndex
		key, embedded, verdict      byte
		preferred, sameSession      bool
	}
	specs := make([]spec, k)
	for i := range specs {
		s := &specs[i]
		s.sender, s.key, s.embedded, s.verdict = group.MemberIndex(vU8()), vU8(), vU8(), vU8()
		vAssume(s.sender <= 5 && s.key <= 3 && s.embedded <= 3 && s.verdict <= 2)
		s.preferred, s.sameSession = vBool(), vBool()
		m := &resultSignatureMessage{senderID: s.sender, resultHash: ResultSignatureHash{7}, signature: []byte{byte(i), s.verdict}, publicKey: []byte{s.embedded}, sessionID: "s1"}
		if !s.preferred {
			m.resultHash = ResultSignatureHash{8}
		}
		if !s.sameSession {
			m.sessionID = "s2"
		}
		rss.Receive(&vNetMsg{key: s.key, payload: m})
	}
	sigs := member.verifyDKGResultSignatures(receivedMessages[*resultSignatureMessage](rss.BaseAsyncState), rss.resultSigner)
	vReach("verified")
	own, ok := sigs[self]
	vAssert(ok && len(own) == 2 && own[0] == 0xee, "the member's own signature is missing from the support set")
	for idx, sig := range sigs {
		if idx == self {
			continue
		}
		vReach("other-supporter")
		// justified by an admitted, matching, verified message of that member
		justified := false
		for i := range specs {
			s := specs[i]
			holdsSeat := s.sender >= 1 && int(s.sender) <= n && s.key <= 2 && ops[int(s.sender)-1] == vKeyAddr[s.key]
			justified = justified || (s.sender == idx && holdsSeat && s.embedded == s.key && s.sameSession && s.preferred && s.verdict == 0 && sig[0] == byte(i))
		}
		vAssert(justified, "a supporting signature was counted that is not a verified signature over the preferred result by the member's network key")
	}
	// a single clean message from another member is counted
	if k >= 1 {
		s := specs[0]
		clean := s.sender != self && s.sender >= 1 && int(s.sender) <= n && s.key <= 2 && ops[int(s.sender)-1] == vKeyAddr[s.key] && s.embedded == s.key && s.sameSession && s.preferred && s.verdict == 0
		if clean {
			_, counted := sigs[s.sender]
			vAssert(counted, "a valid supporting signature (first message of its sender) was not counted")
		}
	}
}
