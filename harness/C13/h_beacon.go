package result

import (
	"github.com/ipfs/go-log/v2"
	beaconchain "github.com/keep-network/keep-core/pkg/beacon/chain"
	"github.com/keep-network/keep-core/pkg/chain"
	"github.com/keep-network/keep-core/pkg/net"
	"github.com/keep-network/keep-core/pkg/protocol/group"
)

var vKeyAddr = []chain.Address{"a", "b", "c", "x"}

// chain.Signing stub: 1-byte network keys; the verdict of a signature check is
// carried by the second signature byte (0 valid, 1 invalid, 2 error)
type vstubSigning struct{ chain.Signing }

func (s *vstubSigning) PublicKeyBytesToAddress(k []byte) chain.Address {
	if len(k) != 1 || int(k[0]) >= len(vKeyAddr) {
		return "x"
	}
	return vKeyAddr[k[0]]
}

type errString string

func (e errString) Error() string { return string(e) }

func (s *vstubSigning) VerifyWithPublicKey(message, signature, publicKey []byte) (bool, error) {
	switch signature[1] {
	case 0:
		return true, nil
	case 1:
		return false, nil
	}
	return false, errString("verif: verification error")
}

type vNetMsg struct {
	key     byte
	payload interface{}
}

func (m *vNetMsg) TransportSenderID() net.TransportIdentifier { return nil }
func (m *vNetMsg) SenderPublicKey() []byte                    { return []byte{m.key} }
func (m *vNetMsg) Payload() interface{}                       { return m.payload }
func (m *vNetMsg) Type() string                               { return "beacon/result" }
func (m *vNetMsg) Seqno() uint64                              { return 0 }

// VerifC13_BeaconSupport: the random-beacon variant — messages go through
// resultSigningState.Receive and then SigningMember.VerifyDKGResultSignatures.
func VerifC13_BeaconSupport() {
	k := 2 // (three messages did not finish within 40 minutes; the thorough tier widens the disqualified member instead)
	ops := []chain.Address{"a", "b", "a", "c"}
	n := len(ops)
	self := group.MemberIndex(vU8())
	vAssume(self >= 1 && int(self) <= n)
	g := group.NewGroup(1, n)
	dq := group.MemberIndex(0) // member 2 (or nobody) was disqualified during key generation
	if vThorough() {
		dq = group.MemberIndex(vU8())
		vAssume(int(dq) <= n)
	} else if vBool() {
		dq = 2
	}
	vAssume(dq != self)
	if dq != 0 {
		g.MarkMemberAsDisqualified(dq)
	}
	signing := &vstubSigning{}
	member := NewSigningMember(log.Logger("verif"), self, g, group.NewMembershipValidator(log.Logger("verif"), ops, signing), "s1")
	member.preferredDKGResultHash = beaconchain.DKGResultHash{7}
	member.selfDKGResultSignature = []byte{0xee, 0}
	rss := &resultSigningState{member: member}
	type spec struct {
		sender                 group.MemberIndex
		key, embedded, verdict byte
		preferred, sameSession bool
		admitted               bool
	}
	specs := make([]spec, k)
	for i := range specs {
		s := &specs[i]
		s.sender, s.key, s.embedded, s.verdict = group.MemberIndex(vU8()), vU8(), vU8(), vU8()
		vAssume(s.sender <= 5 && s.key <= 3 && s.embedded <= 3 && s.verdict <= 2)
		s.preferred, s.sameSession = vBool(), vBool()
		m := &DKGResultHashSignatureMessage{senderIndex: s.sender, resultHash: beaconchain.DKGResultHash{7}, signature: []byte{byte(i), s.verdict}, publicKey: []byte{s.embedded}, sessionID: "s1"}
		if !s.preferred {
			m.resultHash = beaconchain.DKGResultHash{8}
		}
		if !s.sameSession {
			m.sessionID = "s2"
		}
		vAssert(rss.Receive(&vNetMsg{key: s.key, payload: m}) == nil, "Receive failed")
		holdsSeat := s.sender >= 1 && int(s.sender) <= n && s.key <= 2 && ops[int(s.sender)-1] == vKeyAddr[s.key]
		s.admitted = s.sender != self && holdsSeat && s.sender != dq && s.embedded == s.key && s.sameSession
	}
	nAdmitted := 0
	for _, s := range specs {
		if s.admitted {
			nAdmitted++
		}
	}
	vAssert(len(rss.signatureMessages) == nAdmitted, "a signature message was kept although its claimed member index is not held by the sending key, the embedded key differs from the network key, the member is not operating or the session differs (or a good one was dropped)")
	sigs, err := member.VerifyDKGResultSignatures(rss.signatureMessages, signing)
	vAssert(err == nil, "verification failed")
	vReach("verified")
	own, ok := sigs[self]
	vAssert(ok && len(own) == 2 && own[0] == 0xee, "the member's own signature is missing from the support set")
	for idx, sig := range sigs {
		if idx == self {
			continue
		}
		vReach("other-supporter")
		fromIdx, justified := 0, false
		for i, s := range specs {
			if s.admitted && s.sender == idx {
				fromIdx++
				justified = justified || (s.preferred && s.verdict == 0 && sig[0] == byte(i))
			}
		}
		vAssert(justified && fromIdx == 1, "a supporting signature was counted that is not the single, verified signature over the preferred result by that member's network key")
	}
	s := specs[0]
	alone := true
	for i := 1; i < k; i++ {
		alone = alone && !(specs[i].admitted && specs[i].sender == s.sender)
	}
	if s.admitted && alone && s.preferred && s.verdict == 0 {
		_, counted := sigs[s.sender]
		vAssert(counted, "a valid supporting signature was not counted")
	}
}
