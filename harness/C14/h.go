package state

import (
	"context"
	"fmt"
	"sync"

	"github.com/ipfs/go-log/v2"
	"github.com/keep-network/keep-core/pkg/chain"
	"github.com/keep-network/keep-core/pkg/net"
	"github.com/keep-network/keep-core/pkg/protocol/group"
)

type vSMsg struct{ seq int }

func (m *vSMsg) TransportSenderID() net.TransportIdentifier { return nil }
func (m *vSMsg) SenderPublicKey() []byte                    { return nil }
func (m *vSMsg) Payload() interface{}                       { return m }
func (m *vSMsg) Type() string                               { return "verif" }
func (m *vSMsg) Seqno() uint64                              { return uint64(m.seq) }

type vtrace struct {
	mu          sync.Mutex
	waited      []uint64 // WaitForBlockHeight arguments
	waiters     []uint64 // BlockHeightWaiter arguments
	initiatedAt []int    // len(waited) at each Initiate (to relate it to the preceding wait)
	current     int      // index of the state that is current (0-based), -1 before the first
	handedTo    []int    // per handed message (by order): state index
	handedSeq   []int
	deliveredIn []int // per delivered message seq (1-based index): state current when the handler returned
}

type vSState struct {
	i, last       int
	delay, active []uint64
	initFail      int
	t             *vtrace
}

func (s *vSState) DelayBlocks() uint64            { return s.delay[s.i] }
func (s *vSState) ActiveBlocks() uint64           { return s.active[s.i] }
func (s *vSState) MemberIndex() group.MemberIndex { return 1 }
func (s *vSState) Initiate(ctx context.Context) error {
	s.t.mu.Lock()
	defer s.t.mu.Unlock()
	s.t.current = s.i
	s.t.initiatedAt = append(s.t.initiatedAt, len(s.t.waited))
	if s.initFail == s.i+1 {
		return fmt.Errorf("verif: initiate failed")
	}
	return nil
}
func (s *vSState) Receive(m net.Message) error {
	s.t.mu.Lock()
	s.t.handedTo = append(s.t.handedTo, s.i)
	s.t.handedSeq = append(s.t.handedSeq, m.(*vSMsg).seq)
	s.t.mu.Unlock()
	return nil
}
func (s *vSState) Next() (SyncState, error) {
	if s.i == s.last {
		return nil, nil
	}
	n := *s
	n.i++
	return &n, nil
}

type vBlocks struct {
	chain.BlockCounter
	t *vtrace
}

func (b *vBlocks) WaitForBlockHeight(h uint64) error {
	b.t.mu.Lock()
	b.t.waited = append(b.t.waited, h)
	b.t.mu.Unlock()
	return nil
}
// CurrentBlock: the chain may have moved on by a few blocks since the last
// height the machine waited for (e.g. while a state was initiating)
func (b *vBlocks) CurrentBlock() (uint64, error) {
	b.t.mu.Lock()
	defer b.t.mu.Unlock()
	last := uint64(0)
	if n := len(b.t.waited); n > 0 {
		last = b.t.waited[n-1]
	}
	extra := uint64(vU8())
	vAssume(extra <= 3)
	return last + extra, nil
}

func (b *vBlocks) BlockHeightWaiter(h uint64) (<-chan uint64, error) {
	b.t.mu.Lock()
	b.t.waiters = append(b.t.waiters, h)
	b.t.mu.Unlock()
	c := make(chan uint64, 1)
	c <- h // the chain reaches the height; when the machine notices it relative to deliveries is the scheduler's choice
	return c, nil
}

type vreg struct {
	ctx context.Context
	h   func(net.Message)
}

type vSChannel struct {
	net.BroadcastChannel
	mu   sync.Mutex
	regs []vreg
}

func (c *vSChannel) Recv(ctx context.Context, h func(net.Message)) {
	c.mu.Lock()
	c.regs = append(c.regs, vreg{ctx, h})
	c.mu.Unlock()
}

// deliver hands the message to every receiver whose context is live
func (c *vSChannel) deliver(m net.Message) {
	c.mu.Lock()
	regs := append([]vreg{}, c.regs...)
	c.mu.Unlock()
	for _, r := range regs {
		if r.ctx.Err() == nil {
			r.h(m)
			return
		}
	}
}

func VerifC14_Machine() {
	k := 2
	if vThorough() {
		k = 3
	}
	t := &vtrace{current: -1}
	delay, active := make([]uint64, k), make([]uint64, k)
	var total uint64
	for i := 0; i < k; i++ {
		delay[i], active[i] = uint64(vU8()), uint64(vU8()) // zero-length (silent) states included
		total += delay[i] + active[i]
	}
	start := vU64()
	vAssume(start < 1<<62)
	first := &vSState{i: 0, last: k - 1, delay: delay, active: active, t: t}
	ch := &vSChannel{}
	sm := NewSyncMachine(log.Logger("verif"), ch, &vBlocks{t: t}, first)
	var env sync.WaitGroup
	env.Add(1)
	go func() {
		for seq := 1; seq <= 2; seq++ {
			ch.deliver(&vSMsg{seq: seq})
			t.mu.Lock()
			t.deliveredIn = append(t.deliveredIn, t.current)
			t.mu.Unlock()
		}
		env.Done()
	}()
	final, end, err := sm.Execute(start)
	env.Wait()
	vReach("ended")
	t.mu.Lock()
	defer t.mu.Unlock()
	vAssert(err == nil && final != nil, "machine failed although every state succeeded")
	vAssert(end == start+total, "machine did not finish at the start block plus the protocol's total duration")
	// waits: start block, then per state end(i-1)+delay_i; waiters: that + active_i
	vAssert(len(t.waited) == k+1 && t.waited[0] == start, "execution did not begin by waiting for the start block")
	endPrev := start
	for i := 0; i < k; i++ {
		vAssert(t.waited[i+1] == endPrev+delay[i], "a state was initiated at the wrong block (previous end + its delay)")
		vAssert(t.initiatedAt[i] == i+2, "a state was initiated before waiting for its delay")
		vAssert(t.waiters[i] == endPrev+delay[i]+active[i], "a state's end was awaited at the wrong block")
		endPrev += delay[i] + active[i]
	}
	// messages: in delivery order, each at most once, never handed to a state
	// that had already ended when the message was delivered
	for j := 1; j < len(t.handedSeq); j++ {
		vAssert(t.handedSeq[j-1] < t.handedSeq[j], "messages reached the states out of delivery order or twice")
	}
	for j, seq := range t.handedSeq {
		if seq-1 < len(t.deliveredIn) {
			vAssert(t.handedTo[j] >= t.deliveredIn[seq-1], "a message was handed to a state that had already ended when the message arrived")
		}
	}
}
