package state

import (
	"context"
	"fmt"
	"sync"

	"github.com/ipfs/go-log/v2"
	"github.com/keep-network/keep-core/pkg/net"
	"github.com/keep-network/keep-core/pkg/protocol/group"
)

type vMsg struct {
	forState int // the state this message lets finish
	seq      int
}

func (m *vMsg) TransportSenderID() net.TransportIdentifier { return nil }
func (m *vMsg) SenderPublicKey() []byte                    { return nil }
func (m *vMsg) Payload() interface{}                       { return m }
func (m *vMsg) Type() string                               { return fmt.Sprintf("state-%d", m.forState) }
func (m *vMsg) Seqno() uint64                              { return uint64(m.seq) }

type vlog struct {
	mu       sync.Mutex
	events   []string // "init i", "initdone i", "can i", "next i", "recv i<-seq"
	received []int    // seq numbers in the order Receive saw them
}

func (l *vlog) add(f string, a ...interface{}) {
	l.mu.Lock()
	l.events = append(l.events, fmt.Sprintf(f, a...))
	l.mu.Unlock()
}

// vState: state i can move on once a message for state i is in the shared
// history (so a message that arrived while an earlier state was current
// still counts).
type vState struct {
	*BaseAsyncState
	i, last  int
	initFail int // state whose Initiate fails (0: none)
	nextFail int
	l        *vlog
	inited   *[8]bool
	canSeen  *[8]bool
}

func (s *vState) MemberIndex() group.MemberIndex { return 1 }
func (s *vState) Initiate(ctx context.Context) error {
	s.l.add("init %d", s.i)
	if s.initFail == s.i {
		return fmt.Errorf("verif: initiation failed")
	}
	s.inited[s.i] = true
	return nil
}
func (s *vState) Receive(m net.Message) error {
	s.l.mu.Lock()
	s.l.received = append(s.l.received, m.(*vMsg).seq)
	current := 1
	for _, e := range s.l.events {
		var i int
		if n, _ := fmt.Sscanf(e, "next %d", &i); n == 1 {
			current = i + 1
		}
	}
	vAssert(s.i == current, "a message was handed to a state that is not the current one")
	s.l.mu.Unlock()
	s.ReceiveToHistory(m)
	return nil
}
func (s *vState) CanTransition() bool {
	ok := len(s.GetAllReceivedMessages(fmt.Sprintf("state-%d", s.i))) > 0
	if ok {
		s.canSeen[s.i] = true
	}
	return ok
}
func (s *vState) Next() (AsyncState, error) {
	vAssert(s.inited[s.i], "Next called on a state whose initiation has not finished")
	vAssert(s.canSeen[s.i], "Next called on a state that has not reported it can move on")
	s.l.add("next %d", s.i)
	if s.nextFail == s.i {
		return nil, fmt.Errorf("verif: next failed")
	}
	if s.i == s.last {
		return nil, nil
	}
	n := *s
	n.i++
	return &n, nil
}

type vChannel struct {
	net.BroadcastChannel
	registered chan func(net.Message)
}

func (c *vChannel) Recv(ctx context.Context, h func(net.Message)) { c.registered <- h }

func VerifC15_Machine() {
	nStates := 2
	if vThorough() {
		nStates = 3
	}
	l := &vlog{}
	var inited, canSeen [8]bool
	first := &vState{BaseAsyncState: NewBaseAsyncState(), i: 1, last: nStates, l: l, inited: &inited, canSeen: &canSeen}
	first.initFail, first.nextFail = int(vU8()), int(vU8())
	vAssume(first.initFail <= nStates && first.nextFail <= nStates)
	ctx, cancel := context.WithCancel(context.Background())
	ch := &vChannel{registered: make(chan func(net.Message), 1)}
	am := NewAsyncMachine(log.Logger("verif"), ctx, ch, first)
	// environment: delivers one message per state in a solver-chosen order
	// (so messages for later states may come first), plus one duplicate, and
	// may cancel instead of delivering the last one
	order := []int{1, 2, 3}[:nStates]
	if vBool() {
		order[0], order[nStates-1] = order[nStates-1], order[0]
	}
	cancelInstead := vBool()
	delivered := 0
	var envDone sync.WaitGroup
	envDone.Add(1)
	go func() {
		defer envDone.Done()
		handler := <-ch.registered
		for k, st := range order {
			if cancelInstead && k == len(order)-1 {
				cancel()
				return
			}
			handler(&vMsg{forState: st, seq: k + 1})
			delivered = k + 1
			if k == 0 {
				handler(&vMsg{forState: st, seq: 100}) // retransmission-like duplicate
			}
		}
	}()
	final, err := am.Execute()
	envDone.Wait()
	vReach("ended")
	l.mu.Lock()
	defer l.mu.Unlock()
	// states visited in order without gaps: "next i" events are 1,2,..,m
	want := 1
	for _, e := range l.events {
		var i int
		if n, _ := fmt.Sscanf(e, "next %d", &i); n == 1 {
			vAssert(i == want, "a state was skipped or repeated")
			want++
		}
	}
	// messages handed to Receive arrive in delivery order, each at most once
	for k := 1; k < len(l.received); k++ {
		a, b := l.received[k-1], l.received[k]
		if a != 100 && b != 100 {
			vAssert(a < b, "messages reached the states out of delivery order or twice")
		}
	}
	switch {
	case err == nil:
		vReach("final")
		vAssert(final != nil && final.(*vState).i == nStates, "machine reported success before the final state")
		vAssert(first.initFail == 0 && first.nextFail == 0 && !cancelInstead, "machine reported success although a state failed or the context was cancelled")
		// every admitted message is kept: the history holds one message per state plus the duplicate
		total := 0
		for s := 1; s <= nStates; s++ {
			total += len(first.GetAllReceivedMessages(fmt.Sprintf("state-%d", s)))
		}
		vAssert(total == nStates+1, "an admitted message (e.g. one sent for a later state) was lost")
	default:
		vReach("error")
		vAssert(final == nil, "a state returned together with an error")
		vAssert(first.initFail != 0 || first.nextFail != 0 || cancelInstead, "machine failed although every state succeeded and all messages arrived")
	}
	_ = delivered
}
