package libp2p

import (
	"context"
	"sync"

	"github.com/keep-network/keep-core/pkg/net"
)

type vID string

func (i vID) String() string { return string(i) }

type vMsg struct {
	sender string
	seq    uint64
	slot   int
}

func (m *vMsg) TransportSenderID() net.TransportIdentifier { return vID(m.sender) }
func (m *vMsg) SenderPublicKey() []byte                    { return nil }
func (m *vMsg) Payload() interface{}                       { return nil }
func (m *vMsg) Type() string                               { return "verif" }
func (m *vMsg) Seqno() uint64                              { return m.seq }

// vDraw: a message whose (sender, seqno) identity is one of 4 (2 senders x 2
// sequence numbers), chosen by the solver; slot is the index of that identity.
func vDraw() *vMsg {
	m := &vMsg{sender: "peerA", seq: 1}
	if vBool() {
		m.sender, m.slot = "peerB", 2
	}
	if vBool() {
		m.seq = 2
		m.slot++
	}
	return m
}

// Retransmitted and concurrently delivered messages reach the receiver at
// most once per (sender, sequence number); nothing delivered after the
// receiver's context was cancelled reaches it; the handler is removed.
func VerifC16_Delivery() {
	c := &vChan{}
	ctx, cancel := context.WithCancel(context.Background())
	var mu sync.Mutex
	var handled [5]int
	c.Recv(ctx, func(m net.Message) {
		mu.Lock()
		handled[m.(*vMsg).slot]++
		mu.Unlock()
	})
	var delivered [5]bool
	msgs := []*vMsg{{sender: "peerA", seq: 1}, vDraw()}
	if vThorough() {
		msgs = append(msgs, vDraw())
	}
	for _, m := range msgs {
		delivered[m.slot] = true
	}
	var wg sync.WaitGroup
	wg.Add(2)
	go func() { c.deliver(msgs[0]); wg.Done() }()
	go func() { // a retransmission of msgs[0] and other messages (possibly with the same identity)
		c.deliver(msgs[0])
		for _, m := range msgs[1:] {
			c.deliver(m)
		}
		wg.Done()
	}()
	wg.Wait()
	vQuiesce()
	vReach("delivered")
	mu.Lock()
	for s := 0; s < 4; s++ {
		vAssert(handled[s] <= 1, "a receiver saw the same (sender, sequence number) message more than once")
		vAssert(handled[s] == 1 || !delivered[s], "a delivered message never reached the registered receiver")
	}
	mu.Unlock()
	cancel()
	vQuiesce()
	late := &vMsg{sender: "peerC", seq: 9, slot: 4}
	c.deliver(late)
	vQuiesce()
	mu.Lock()
	vAssert(handled[4] == 0, "a message delivered after the receiver's context was cancelled reached it")
	mu.Unlock()
	c.messageHandlersMutex.Lock()
	vAssert(len(c.messageHandlers) == 0, "handler still registered after its context was cancelled")
	c.messageHandlersMutex.Unlock()
}

// Cancellation racing deliveries: whatever the interleaving, each identity is
// handled at most once and the handler ends up removed.
func VerifC16_CancelRace() {
	c := &vChan{}
	ctx, cancel := context.WithCancel(context.Background())
	var mu sync.Mutex
	var handled [5]int
	c.Recv(ctx, func(m net.Message) {
		mu.Lock()
		handled[m.(*vMsg).slot]++
		mu.Unlock()
	})
	a := vDraw()
	b := a // quick: a message and its retransmission race the cancellation
	if vThorough() {
		b = vDraw()
	}
	var wg sync.WaitGroup
	wg.Add(2)
	go func() { c.deliver(a); c.deliver(b); wg.Done() }()
	go func() { cancel(); wg.Done() }()
	wg.Wait()
	vQuiesce()
	vReach("raced")
	mu.Lock()
	for s := 0; s < 4; s++ {
		vAssert(handled[s] <= 1, "a receiver saw the same (sender, sequence number) message more than once")
	}
	mu.Unlock()
	c.messageHandlersMutex.Lock()
	vAssert(len(c.messageHandlers) == 0, "handler still registered after its context was cancelled")
	c.messageHandlersMutex.Unlock()
}

// Concurrent senders draw distinct sequence numbers.
func VerifC16_Seqno() {
	c := &vChan{}
	c.counter = vU64()
	vAssume(c.counter < 1<<62)
	var x, y, z uint64
	var wg sync.WaitGroup
	wg.Add(2)
	go func() { x = c.nextSeqno(); wg.Done() }()
	go func() { y = c.nextSeqno(); z = c.nextSeqno(); wg.Done() }()
	wg.Wait()
	vReach("numbered")
	vAssert(x != y && x != z && y != z, "two messages sent on one channel got the same sequence number")
}

// A message still waiting in the receiver's queue when its context is
// cancelled must not reach the receiver afterwards.
func VerifC16_QueuedThenCancelled() {
	c := &vChan{}
	ctx, cancel := context.WithCancel(context.Background())
	handled := 0
	c.Recv(ctx, func(m net.Message) { handled++ })
	c.messageHandlersMutex.Lock()
	mh := c.messageHandlers[0]
	c.messageHandlersMutex.Unlock()
	c.deliver(vDraw())
	cancel()
	stillQueued := len(mh.channel) == 1
	vQuiesce()
	vReach("cancelled")
	if stillQueued {
		vReach("queued-at-cancel")
		vAssert(handled == 0, "a message still queued when the receiver's context was cancelled reached the receiver afterwards")
	}
}

// VerifC16_DeliveredThenCancelled: a message is delivered and the receiver's
// context is cancelled right afterwards, before the receiver's goroutine gets
// to run (no preemption is allowed in this unit, so the receiver cannot have
// checked its context before the cancel): whether the message is still queued
// or was already taken from the queue, the handler must not see it.
func VerifC16_DeliveredThenCancelled() {
	c := &vChan{}
	ctx, cancel := context.WithCancel(context.Background())
	handled := 0
	c.Recv(ctx, func(m net.Message) { handled++ })
	vQuiesce() // the receiver is parked, waiting for a message or its context
	c.deliver(vDraw())
	cancel()
	vQuiesce()
	vReach("cancelled")
	vAssert(handled == 0, "a message reached the receiver although its context had been cancelled before the receiver looked at it")
}

type vChan = channel
