package retransmission

import (
	"sync"

	"github.com/keep-network/keep-core/pkg/net"
)

type vID string

func (i vID) String() string { return string(i) }

type vMsg struct {
	sender string
	seq    uint64
}

func (m *vMsg) TransportSenderID() net.TransportIdentifier { return vID(m.sender) }
func (m *vMsg) SenderPublicKey() []byte                    { return nil }
func (m *vMsg) Payload() interface{}                       { return nil }
func (m *vMsg) Type() string                               { return "verif" }
func (m *vMsg) Seqno() uint64                              { return m.seq }

// The duplicate filter itself under concurrent callers: the same message
// handed to it from two goroutines reaches the delegate once; a different
// one reaches it as well.
func VerifC16_FilterConcurrent() {
	var mu sync.Mutex
	count := map[uint64]int{}
	h := WithRetransmissionSupport(func(m net.Message) {
		mu.Lock()
		count[m.Seqno()]++
		mu.Unlock()
	})
	s := uint64(vU8())
	vAssume(s >= 1 && s <= 12)
	var wg sync.WaitGroup
	wg.Add(2)
	go func() { h(&vMsg{"peerA", s}); wg.Done() }()
	go func() { h(&vMsg{"peerA", s}); h(&vMsg{"peerA", s + 1}); wg.Done() }()
	wg.Wait()
	vReach("filtered")
	mu.Lock()
	vAssert(count[s] == 1, "a message handed to the duplicate filter concurrently reached the receiver more or less than once")
	vAssert(count[s+1] == 1, "a distinct message was suppressed")
	mu.Unlock()
}
