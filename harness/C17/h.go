package retransmission

import (
	"context"
	"sync"

	"github.com/ipfs/go-log"
)

// vSchedule returns how many of the ticks 1..n the backoff schedule
// (1, 3, 6, 11, 20, ... gaps doubling) retransmits on, and the strategy state
// after n ticks.
func vSchedule(n uint64) (fires int, delay, next uint64) {
	delay, next = 1, 1
	for t := uint64(1); t <= n; t++ {
		if t == next {
			fires++
			next += delay + 1
			delay *= 2
		}
	}
	return
}

// The production path: a Ticker fed by a tick channel, ScheduleRetransmissions
// running the strategy on a fresh goroutine per tick; ticks arrive in a burst
// so the callbacks may overlap in any way the scheduler chooses.
func vRun(strategy Strategy, n int, cancelBeforeLast bool) int {
	ticks := make(chan uint64)
	ticker := NewTicker(ticks)
	ctx, cancel := context.WithCancel(context.Background())
	var mu sync.Mutex
	count := 0
	ScheduleRetransmissions(ctx, log.Logger("verif"), ticker, func() error {
		mu.Lock()
		count++
		mu.Unlock()
		return nil
	}, strategy)
	vQuiesce() // registration done
	for i := 0; i < n; i++ {
		if cancelBeforeLast && i == n-1 {
			cancel()
		}
		ticks <- uint64(i + 1)
	}
	close(ticks)
	vQuiesce()
	cancel()
	mu.Lock()
	defer mu.Unlock()
	return count
}

func vTicks() int {
	if vThorough() {
		return 3
	}
	return 2
}

func VerifC17_BackoffBurst() {
	n := vTicks()
	s := WithBackoffStrategy()
	got := vRun(s, n, false)
	vReach("burst-done")
	want, delay, next := vSchedule(uint64(n))
	vAssert(got == want, "backoff strategy did not retransmit exactly on the scheduled ticks when tick callbacks overlapped")
	vAssert(s.tickCounter == uint64(n) && s.delay == delay && s.retransmitTick == next, "backoff schedule state corrupted by overlapping tick callbacks (later retransmissions shift)")
}

func VerifC17_StandardBurst() {
	n := vTicks()
	got := vRun(WithStandardStrategy(), n, false)
	vReach("burst-done")
	vAssert(got == n, "standard strategy must retransmit once per tick")
}

func VerifC17_StopsWithContext() {
	n := vTicks()
	got := vRun(WithStandardStrategy(), n, true)
	vReach("cancelled-done")
	// a tick handed over before the cancellation may still be processed after
	// it (and then be dropped), so only the upper bound is required
	vAssert(got <= n-1, "a tick delivered after the context ended must not retransmit")
}

// Sequential reference: the strategy itself follows 1, 3, 6, 11, 20 for any
// number of ticks from an arbitrary reachable state.
func VerifC17_BackoffSequence() {
	s := WithBackoffStrategy()
	fired := 0
	n := 12
	if vThorough() {
		n = 40
	}
	for t := 1; t <= n; t++ {
		before := fired
		s.Tick(func() error { fired++; return nil })
		want := t == 1 || t == 3 || t == 6 || t == 11 || t == 20 || t == 37
		vAssert((fired == before+1) == want, "backoff strategy retransmits on ticks 1, 3, 6, 11, 20, 37, ...")
	}
	vReach("sequence-done")
}

// Three tick callbacks overlapping directly on the strategy (what
// ScheduleRetransmissions' per-tick goroutines amount to), from the initial
// state: tick numbers may be taken and evaluated in different orders.
func VerifC17_BackoffOverlap3() {
	s := WithBackoffStrategy()
	var mu sync.Mutex
	count := 0
	var wg sync.WaitGroup
	for i := 0; i < 3; i++ {
		wg.Add(1)
		go func() {
			s.Tick(func() error {
				mu.Lock()
				count++
				mu.Unlock()
				return nil
			})
			wg.Done()
		}()
	}
	wg.Wait()
	vReach("overlap-done")
	want, delay, next := vSchedule(3)
	vAssert(count == want, "backoff strategy did not retransmit exactly on the scheduled ticks when tick callbacks overlapped")
	vAssert(s.tickCounter == 3 && s.delay == delay && s.retransmitTick == next, "backoff schedule state corrupted by overlapping tick callbacks (later retransmissions shift)")
}
