package libp2p

import (
	"context"
	"fmt"
	"math/big"

	libp2pcrypto "github.com/libp2p/go-libp2p/core/crypto"
	cryptopb "github.com/libp2p/go-libp2p/core/crypto/pb"
	"github.com/libp2p/go-libp2p/core/peer"

	"github.com/keep-network/keep-core/pkg/net"
	"github.com/keep-network/keep-core/pkg/net/gen/pb"
	"github.com/keep-network/keep-core/pkg/operator"
)

var vErr = fmt.Errorf("verif: malformed")

// vOtherKey: a public key that is not a secp256k1 key
type vOtherKey struct{ id byte }

func (k *vOtherKey) Equals(o libp2pcrypto.Key) bool       { return false }
func (k *vOtherKey) Raw() ([]byte, error)                 { return []byte{k.id}, nil }
func (k *vOtherKey) Type() cryptopb.KeyType               { return cryptopb.KeyType_Ed25519 }
func (k *vOtherKey) Verify(d []byte, s []byte) (bool, error) { return false, nil }

// engine-side models of the libp2p key plumbing
var vKeyTag = map[libp2pcrypto.PubKey]byte{}

var vForcedIdentity byte // non-zero: the identity bytes decode to this peer's secp256k1 key
var vDecodes int          // identity decodings performed
var vLastTag byte         // peer tag the last decoded identity belongs to (0: malformed)

func vUnmarshalPublicKey(b []byte) (libp2pcrypto.PubKey, error) {
	vDecodes++
	vLastTag = 0
	if vForcedIdentity == 0 && len(b) > 0 {
		vLastTag = b[0] % 4
	}
	if vForcedIdentity != 0 {
		k := new(libp2pcrypto.Secp256k1PublicKey)
		vKeyTag[k] = vForcedIdentity
		return k, nil
	}
	if len(b) == 0 || b[0]%4 == 0 {
		return nil, vErr
	}
	if b[0]%4 == 3 {
		k := &vOtherKey{id: 3}
		vKeyTag[k] = 3
		return k, nil
	}
	k := new(libp2pcrypto.Secp256k1PublicKey)
	vKeyTag[k] = b[0] % 4
	return k, nil
}
func vIDFromPublicKey(k libp2pcrypto.PubKey) (peer.ID, error) {
	return peer.ID([]byte{'p', '0' + vKeyTag[k]}), nil
}
func vNetworkKeyToOperatorKey(k libp2pcrypto.PubKey) (*operator.PublicKey, error) {
	if _, ok := k.(*libp2pcrypto.Secp256k1PublicKey); ok {
		return &operator.PublicKey{Curve: operator.Secp256k1, X: big.NewInt(int64(vKeyTag[k])), Y: big.NewInt(1)}, nil
	}
	return nil, fmt.Errorf("unrecognized libp2p public key type")
}
func vMarshalUncompressed(k *operator.PublicKey) []byte { return []byte{4, byte(k.X.Int64())} }

type vPayload struct{ fail bool }

func (p *vPayload) Type() string { return "known" }
func (p *vPayload) Unmarshal([]byte) error {
	if p.fail {
		return vErr
	}
	return nil
}

func VerifC18_Envelope() {
	c := &channel{unmarshalersByType: map[string]func() net.TaggedUnmarshaler{}}
	payloadFails := vBool()
	c.unmarshalersByType["known"] = func() net.TaggedUnmarshaler { return &vPayload{fail: payloadFails} }
	ctx, cancel := context.WithCancel(context.Background())
	defer cancel()
	mh := &messageHandler{ctx: ctx, channel: make(chan net.Message, 4)}
	c.messageHandlers = append(c.messageHandlers, mh)
	typ := "known"
	if vBool() {
		typ = "unknown"
	}
	author := byte(vU8()) // the authenticated publisher is peer p1, p2, p3 (or someone else)
	vAssume(author >= 1 && author <= 4)
	msg := &pb.BroadcastNetworkMessage{Sender: []byte{0x0a, 0x01}, Payload: []byte{1}, Type: []byte(typ), SequenceNumber: vU64()}
	// optionally the same publisher sent a well-formed envelope before (the
	// binding must hold for every envelope, not only the first of a peer)
	if author <= 2 && vBool() {
		vReach("second-envelope")
		okPayload := payloadFails
		payloadFails = false
		first := &pb.BroadcastNetworkMessage{Sender: []byte{author}, Payload: []byte{1}, Type: []byte("known"), SequenceNumber: 1}
		vForcedIdentity = author
		ferr := c.processContainerMessage(peer.ID([]byte{'p', '0' + author}), first)
		vForcedIdentity = 0
		vAssume(ferr == nil && len(mh.channel) == 1) // the cases in which that first envelope is well formed and delivered
		<-mh.channel
		payloadFails = okPayload
	}
	decodesBefore := vDecodes
	err := c.processContainerMessage(peer.ID([]byte{'p', '0' + author}), msg)
	delivered := len(mh.channel)
	if delivered == 1 {
		vAssert(vDecodes > decodesBefore && vLastTag == author, "a message was delivered without its inner sender identity being decoded and matched against the authenticated publisher")
	}
	vReach("processed")
	vAssert((err == nil) == (delivered == 1), "a message was delivered together with an error, or dropped without one")
	if delivered == 1 {
		vReach("delivered")
		m := <-mh.channel
		vAssert(typ == "known" && !payloadFails, "a message of an unregistered type or with an undecodable payload was delivered")
		vAssert(m.TransportSenderID().String() == peer.ID([]byte{'p', '0' + author}).String(), "delivered message is not attributed to the authenticated publisher")
		key := m.SenderPublicKey()
		vAssert(len(key) == 2 && key[1] == author && author <= 2, "delivered sender public key is not the authenticated publisher's secp256k1 key")
		vAssert(m.Seqno() == msg.SequenceNumber && m.Type() == "known", "delivered message lost its type or sequence number")
	}
}
