package entry

// Decoding totality: each Unmarshal applied to arbitrary bytes. The engine's
// protobuf model lets proto.Unmarshal fail or produce any message of the
// target type a decoder can produce; any panic is a violation.

func VerifC19_beacon_entry_SignatureShareMessage() {
	v := new(SignatureShareMessage)
	err := v.Unmarshal([]byte{0x0a, 0x00})
	vReach("returned")
	if err == nil {
		vReach("decoded")
	}
}
