package gjkr

// Decoding totality: each Unmarshal applied to arbitrary bytes. The engine's
// protobuf model lets proto.Unmarshal fail or produce any message of the
// target type a decoder can produce; any panic is a violation.

func VerifC19_beacon_gjkr_EphemeralPublicKeyMessage() {
	v := new(EphemeralPublicKeyMessage)
	err := v.Unmarshal([]byte{0x0a, 0x00})
	vReach("returned")
	if err == nil {
		vReach("decoded")
	}
}

func VerifC19_beacon_gjkr_MemberCommitmentsMessage() {
	v := new(MemberCommitmentsMessage)
	err := v.Unmarshal([]byte{0x0a, 0x00})
	vReach("returned")
	if err == nil {
		vReach("decoded")
	}
}

func VerifC19_beacon_gjkr_MemberPublicKeySharePointsMessage() {
	v := new(MemberPublicKeySharePointsMessage)
	err := v.Unmarshal([]byte{0x0a, 0x00})
	vReach("returned")
	if err == nil {
		vReach("decoded")
	}
}

func VerifC19_beacon_gjkr_MisbehavedEphemeralKeysMessage() {
	v := new(MisbehavedEphemeralKeysMessage)
	err := v.Unmarshal([]byte{0x0a, 0x00})
	vReach("returned")
	if err == nil {
		vReach("decoded")
	}
}

func VerifC19_beacon_gjkr_PeerSharesMessage() {
	v := new(PeerSharesMessage)
	err := v.Unmarshal([]byte{0x0a, 0x00})
	vReach("returned")
	if err == nil {
		vReach("decoded")
	}
}

func VerifC19_beacon_gjkr_PointsAccusationsMessage() {
	v := new(PointsAccusationsMessage)
	err := v.Unmarshal([]byte{0x0a, 0x00})
	vReach("returned")
	if err == nil {
		vReach("decoded")
	}
}

func VerifC19_beacon_gjkr_SecretSharesAccusationsMessage() {
	v := new(SecretSharesAccusationsMessage)
	err := v.Unmarshal([]byte{0x0a, 0x00})
	vReach("returned")
	if err == nil {
		vReach("decoded")
	}
}
