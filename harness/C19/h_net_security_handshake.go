package handshake

// Decoding totality: each Unmarshal applied to arbitrary bytes. The engine's
// protobuf model lets proto.Unmarshal fail or produce any message of the
// target type a decoder can produce; any panic is a violation.

func VerifC19_net_security_handshake_Act1Message() {
	v := new(Act1Message)
	err := v.Unmarshal([]byte{0x0a, 0x00})
	vReach("returned")
	if err == nil {
		vReach("decoded")
	}
}

func VerifC19_net_security_handshake_Act2Message() {
	v := new(Act2Message)
	err := v.Unmarshal([]byte{0x0a, 0x00})
	vReach("returned")
	if err == nil {
		vReach("decoded")
	}
}

func VerifC19_net_security_handshake_Act3Message() {
	v := new(Act3Message)
	err := v.Unmarshal([]byte{0x0a, 0x00})
	vReach("returned")
	if err == nil {
		vReach("decoded")
	}
}
