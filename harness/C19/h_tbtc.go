package tbtc

// Decoding totality: each Unmarshal applied to arbitrary bytes. The engine's
// protobuf model lets proto.Unmarshal fail or produce any message of the
// target type a decoder can produce; any panic is a violation.

func VerifC19_tbtc_DepositSweepProposal() {
	v := new(DepositSweepProposal)
	err := v.Unmarshal([]byte{0x0a, 0x00})
	vReach("returned")
	if err == nil {
		vReach("decoded")
	}
}

func VerifC19_tbtc_HeartbeatProposal() {
	v := new(HeartbeatProposal)
	err := v.Unmarshal([]byte{0x0a, 0x00})
	vReach("returned")
	if err == nil {
		vReach("decoded")
	}
}

func VerifC19_tbtc_MovedFundsSweepProposal() {
	v := new(MovedFundsSweepProposal)
	err := v.Unmarshal([]byte{0x0a, 0x00})
	vReach("returned")
	if err == nil {
		vReach("decoded")
	}
}

func VerifC19_tbtc_MovingFundsProposal() {
	v := new(MovingFundsProposal)
	err := v.Unmarshal([]byte{0x0a, 0x00})
	vReach("returned")
	if err == nil {
		vReach("decoded")
	}
}

func VerifC19_tbtc_RedemptionProposal() {
	v := new(RedemptionProposal)
	err := v.Unmarshal([]byte{0x0a, 0x00})
	vReach("returned")
	if err == nil {
		vReach("decoded")
	}
}

func VerifC19_tbtc_coordinationMessage() {
	v := new(coordinationMessage)
	err := v.Unmarshal([]byte{0x0a, 0x00})
	vReach("returned")
	if err == nil {
		vReach("decoded")
	}
}

func VerifC19_tbtc_signer() {
	v := new(signer)
	err := v.Unmarshal([]byte{0x0a, 0x00})
	vReach("returned")
	if err == nil {
		vReach("decoded")
	}
}

func VerifC19_tbtc_signingDoneMessage() {
	v := new(signingDoneMessage)
	err := v.Unmarshal([]byte{0x0a, 0x00})
	vReach("returned")
	if err == nil {
		vReach("decoded")
	}
}
