package tbtc

import (
	"math/big"

	"github.com/keep-network/keep-core/pkg/protocol/group"
	"github.com/keep-network/keep-core/pkg/tecdsa"
)

// Round trip: what is decoded equals what was encoded — and stays equal after
// further messages of the same kind have been decoded (decoded values must not
// share state).
func VerifC19_tbtc_RoundTripCoordination() {
	mk := func() *coordinationMessage {
		m := &coordinationMessage{senderID: group.MemberIndex(vU8()), coordinationBlock: vU64()}
		vAssume(m.senderID >= 1)
		for i := 0; i < 20; i += 7 {
			m.walletPublicKeyHash[i] = vU8()
		}
		hp := &HeartbeatProposal{}
		hp.Message[0], hp.Message[15] = vU8(), vU8()
		m.proposal = hp
		return m
	}
	a, b := mk(), mk()
	ab, err1 := a.Marshal()
	bb, err2 := b.Marshal()
	vAssert(err1 == nil && err2 == nil, "encoding failed")
	da, db := &coordinationMessage{}, &coordinationMessage{}
	vAssert(da.Unmarshal(ab) == nil, "decoding an encoded message failed")
	vAssert(db.Unmarshal(bb) == nil, "decoding an encoded message failed")
	vReach("decoded")
	same := func(x, y *coordinationMessage) bool {
		hx, ok1 := x.proposal.(*HeartbeatProposal)
		hy, ok2 := y.proposal.(*HeartbeatProposal)
		return ok1 && ok2 && x.senderID == y.senderID && x.coordinationBlock == y.coordinationBlock &&
			x.walletPublicKeyHash == y.walletPublicKeyHash && hx.Message == hy.Message
	}
	vAssert(same(da, a), "first decoded message differs from what was encoded (after a second message was decoded)")
	vAssert(same(db, b), "second decoded message differs from what was encoded")
}

func VerifC19_tbtc_RoundTripSigningDone() {
	m := &signingDoneMessage{senderID: group.MemberIndex(vU8()), message: new(big.Int).SetBytes([]byte{vU8(), vU8()}), attemptNumber: vU64(), endBlock: vU64(),
		signature: &tecdsa.Signature{R: new(big.Int).SetBytes([]byte{vU8(), 1}), S: new(big.Int).SetBytes([]byte{vU8(), 2}), RecoveryID: 1}}
	vAssume(m.senderID >= 1)
	b, err := m.Marshal()
	vAssert(err == nil, "encoding failed")
	d := &signingDoneMessage{}
	vAssert(d.Unmarshal(b) == nil, "decoding an encoded message failed")
	vReach("decoded")
	vAssert(d.senderID == m.senderID && d.attemptNumber == m.attemptNumber && d.endBlock == m.endBlock && d.message.Cmp(m.message) == 0 && d.signature.Equals(m.signature), "decoded signing-done message differs from what was encoded")
}
