package dkg

// Decoding totality: each Unmarshal applied to arbitrary bytes. The engine's
// protobuf model lets proto.Unmarshal fail or produce any message of the
// target type a decoder can produce; any panic is a violation.

func VerifC19_tecdsa_dkg_PreParams() {
	v := new(PreParams)
	err := v.Unmarshal([]byte{0x0a, 0x00})
	vReach("returned")
	if err == nil {
		vReach("decoded")
	}
}

func VerifC19_tecdsa_dkg_ephemeralPublicKeyMessage() {
	v := new(ephemeralPublicKeyMessage)
	err := v.Unmarshal([]byte{0x0a, 0x00})
	vReach("returned")
	if err == nil {
		vReach("decoded")
	}
}

func VerifC19_tecdsa_dkg_resultSignatureMessage() {
	v := new(resultSignatureMessage)
	err := v.Unmarshal([]byte{0x0a, 0x00})
	vReach("returned")
	if err == nil {
		vReach("decoded")
	}
}

func VerifC19_tecdsa_dkg_tssFinalizationMessage() {
	v := new(tssFinalizationMessage)
	err := v.Unmarshal([]byte{0x0a, 0x00})
	vReach("returned")
	if err == nil {
		vReach("decoded")
	}
}

func VerifC19_tecdsa_dkg_tssRoundOneMessage() {
	v := new(tssRoundOneMessage)
	err := v.Unmarshal([]byte{0x0a, 0x00})
	vReach("returned")
	if err == nil {
		vReach("decoded")
	}
}

func VerifC19_tecdsa_dkg_tssRoundThreeMessage() {
	v := new(tssRoundThreeMessage)
	err := v.Unmarshal([]byte{0x0a, 0x00})
	vReach("returned")
	if err == nil {
		vReach("decoded")
	}
}

func VerifC19_tecdsa_dkg_tssRoundTwoMessage() {
	v := new(tssRoundTwoMessage)
	err := v.Unmarshal([]byte{0x0a, 0x00})
	vReach("returned")
	if err == nil {
		vReach("decoded")
	}
}
