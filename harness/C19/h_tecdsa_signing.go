package signing

// Decoding totality: each Unmarshal applied to arbitrary bytes. The engine's
// protobuf model lets proto.Unmarshal fail or produce any message of the
// target type a decoder can produce; any panic is a violation.

func VerifC19_tecdsa_signing_ephemeralPublicKeyMessage() {
	v := new(ephemeralPublicKeyMessage)
	err := v.Unmarshal([]byte{0x0a, 0x00})
	vReach("returned")
	if err == nil {
		vReach("decoded")
	}
}

func VerifC19_tecdsa_signing_tssRoundEightMessage() {
	v := new(tssRoundEightMessage)
	err := v.Unmarshal([]byte{0x0a, 0x00})
	vReach("returned")
	if err == nil {
		vReach("decoded")
	}
}

func VerifC19_tecdsa_signing_tssRoundFiveMessage() {
	v := new(tssRoundFiveMessage)
	err := v.Unmarshal([]byte{0x0a, 0x00})
	vReach("returned")
	if err == nil {
		vReach("decoded")
	}
}

func VerifC19_tecdsa_signing_tssRoundFourMessage() {
	v := new(tssRoundFourMessage)
	err := v.Unmarshal([]byte{0x0a, 0x00})
	vReach("returned")
	if err == nil {
		vReach("decoded")
	}
}

func VerifC19_tecdsa_signing_tssRoundNineMessage() {
	v := new(tssRoundNineMessage)
	err := v.Unmarshal([]byte{0x0a, 0x00})
	vReach("returned")
	if err == nil {
		vReach("decoded")
	}
}

func VerifC19_tecdsa_signing_tssRoundOneMessage() {
	v := new(tssRoundOneMessage)
	err := v.Unmarshal([]byte{0x0a, 0x00})
	vReach("returned")
	if err == nil {
		vReach("decoded")
	}
}

func VerifC19_tecdsa_signing_tssRoundSevenMessage() {
	v := new(tssRoundSevenMessage)
	err := v.Unmarshal([]byte{0x0a, 0x00})
	vReach("returned")
	if err == nil {
		vReach("decoded")
	}
}

func VerifC19_tecdsa_signing_tssRoundSixMessage() {
	v := new(tssRoundSixMessage)
	err := v.Unmarshal([]byte{0x0a, 0x00})
	vReach("returned")
	if err == nil {
		vReach("decoded")
	}
}

func VerifC19_tecdsa_signing_tssRoundThreeMessage() {
	v := new(tssRoundThreeMessage)
	err := v.Unmarshal([]byte{0x0a, 0x00})
	vReach("returned")
	if err == nil {
		vReach("decoded")
	}
}

func VerifC19_tecdsa_signing_tssRoundTwoMessage() {
	v := new(tssRoundTwoMessage)
	err := v.Unmarshal([]byte{0x0a, 0x00})
	vReach("returned")
	if err == nil {
		vReach("decoded")
	}
}
