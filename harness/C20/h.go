package handshake

func vProto() string {
	if vBool() {
		return "keep/2"
	}
	return "keep/1"
}

// One session with at most one altered field (or a protocol mismatch).
func VerifC20_Session() {
	pI, pR := vProto(), vProto()
	ia1, err := InitiateHandshake(pI)
	vAssert(err == nil, "initiation failed")
	site := vRange(0, 6) // which single field the adversary alters (0: none)
	d := vU8()
	m1 := ia1.Message()
	switch site {
	case 1:
		m1.nonce1 ^= uint64(d) << 24
	case 2:
		m1.protocol1 = vProto()
	}
	altered := site != 0 && d != 0
	if site == 2 {
		altered = m1.protocol1 != pI
	}
	ra2, err := AnswerHandshake(m1, pR)
	if err != nil {
		vReach("act1-rejected")
		vAssert(m1.protocol1 != pR, "responder rejected a first act for its own protocol")
		return
	}
	vAssert(m1.protocol1 == pR, "responder answered a first act for another protocol")
	m2 := ra2.Message()
	switch site {
	case 3:
		m2.nonce2 ^= uint64(d)
	case 4:
		m2.challenge[int(d)%32] ^= d | 1
		altered = true
	case 5:
		m2.protocol2 = vProto()
		altered = m2.protocol2 != pR
	}
	ia3, err := ia1.Next().Next(m2)
	if err != nil {
		vReach("act2-rejected")
		vAssert(altered || pI != pR, "initiator rejected an unaltered second act of a responder on the same protocol")
		return
	}
	m3 := ia3.Message()
	if site == 6 {
		m3.challenge[int(d)%32] ^= d | 1
		altered = true
	}
	err = ra2.Next().FinalizeHandshake(m3)
	if err != nil {
		vReach("act3-rejected")
		vAssert(altered, "responder rejected an unaltered third act")
		return
	}
	vReach("completed")
	vAssert(!altered, "handshake completed although an act was altered")
	vAssert(pI == pR, "handshake completed between peers on different protocols")
}

// Replaying the second act of another session makes the initiator fail
// (unless the sessions happen to share the initiator nonce).
func VerifC20_Replay() {
	a1, _ := InitiateHandshake("keep/1")
	b1, _ := InitiateHandshake("keep/1")
	ra2, err := AnswerHandshake(a1.Message(), "keep/1")
	vAssert(err == nil, "unexpected rejection")
	_, err = b1.Next().Next(ra2.Message()) // act 2 of session A replayed into session B
	vReach("replayed")
	vAssert(err != nil || a1.nonce1 == b1.nonce1, "a second act replayed from another session was accepted")
	// and a third act of another session fails at the responder
	rb2, _ := AnswerHandshake(b1.Message(), "keep/1")
	ia3, err := a1.Next().Next(ra2.Message())
	vAssert(err == nil, "honest session A failed")
	err = rb2.Next().FinalizeHandshake(ia3.Message())
	vAssert(err != nil || (a1.nonce1 == b1.nonce1 && ra2.nonce2 == rb2.nonce2), "a third act replayed from another session was accepted")
}
