package libp2p

import (
	"fmt"

	libp2pcrypto "github.com/libp2p/go-libp2p/core/crypto"
	cryptopb "github.com/libp2p/go-libp2p/core/crypto/pb"
	"github.com/libp2p/go-libp2p/core/peer"
)

var vErrMalformed = fmt.Errorf("verif: malformed signature")
var vErrNoKey = fmt.Errorf("verif: peer id carries no key")

// vSigKey models a peer's public key: a signature is [kind, signer, digest]
// where kind 0 = undecodable (Verify errors), otherwise it verifies exactly
// when it was made by this key's owner over this message.
type vSigKey struct{ owner byte }

func (k *vSigKey) Equals(o libp2pcrypto.Key) bool { return false }
func (k *vSigKey) Raw() ([]byte, error)           { return []byte{k.owner}, nil }
func (k *vSigKey) Type() cryptopb.KeyType         { return cryptopb.KeyType_Secp256k1 }
func (k *vSigKey) Verify(d []byte, s []byte) (bool, error) {
	if len(s) != 3 || s[0] == 0 {
		return false, vErrMalformed
	}
	return s[1] == k.owner && len(d) > 0 && s[2] == d[0], nil
}

// peer ids are 2-byte strings: 'p', owner; owner 0 carries no extractable key
func vExtractPublicKey(id peer.ID) (libp2pcrypto.PubKey, error) {
	if len(id) != 2 || id[1] == 0 {
		return nil, vErrNoKey
	}
	return &vSigKey{owner: id[1]}, nil
}

// VerifC20_Envelope: a handshake act is accepted from the wire only when the
// envelope names the pinned peer and carries that peer's own signature over
// exactly these message bytes — every other combination of claimed peer,
// signer, signature well-formedness and message is refused.
func VerifC20_Envelope() {
	expected := peer.ID([]byte{'p', vU8()})
	actual := peer.ID([]byte{'p', vU8()})
	msg := []byte{vU8(), vU8()}
	sig := []byte{vU8(), vU8(), vU8()}
	err := (&authenticatedConnection{}).verify(expected, actual, msg, sig)
	want := expected[1] == actual[1] && actual[1] != 0 && sig[0] != 0 && sig[1] == actual[1] && sig[2] == msg[0]
	if want {
		vReach("accepted")
	} else {
		vReach("refused")
	}
	vAssert((err == nil) == want, "an act envelope was accepted without the pinned peer's own valid signature over it (or a properly signed one was refused)")
}
