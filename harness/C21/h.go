package firewall

import (
	"fmt"
	"math/big"

	"github.com/keep-network/keep-core/pkg/operator"
)

var vErr = fmt.Errorf("verif: application query failed")

// replaces operator.PublicKey.String (curve point compression is outside the claim)
func vKeyString(pk *operator.PublicKey) string { return "peer" + pk.X.String() }

type vApp struct {
	answer  *int // 0 no, 1 yes, 2 error (this round)
	asked   *int
	order   *[]int
	id      int
}

func (a *vApp) IsRecognized(*operator.PublicKey) (bool, error) {
	*a.asked++
	*a.order = append(*a.order, a.id)
	switch *a.answer {
	case 1:
		return true, nil
	case 2:
		return false, vErr
	}
	return false, nil
}

const vHour = int64(3600 * 1000000000)

func VerifC21_Histories() {
	k := 3
	if vThorough() {
		k = 4
	}
	peers := []*operator.PublicKey{{X: big.NewInt(1), Y: big.NewInt(1)}, {X: big.NewInt(2), Y: big.NewInt(1)}, {X: big.NewInt(3), Y: big.NewInt(1)}}
	allow := NewAllowList([]*operator.PublicKey{peers[2]})
	answers := []int{0, 0}
	asked := 0
	var order []int
	fw := AnyApplicationPolicy([]Application{
		&vApp{answer: &answers[0], asked: &asked, order: &order, id: 0},
		&vApp{answer: &answers[1], asked: &asked, order: &order, id: 1},
	}, allow)
	now := int64(1000)
	var posAt, negAt [3]int64 // 0 = no answer remembered
	for i := 0; i < k; i++ {
		dt := int64(vU64())
		vAssume(dt >= 1 && dt <= 14*vHour)
		now += dt
		vSetClock(now)
		pi := int(vU8())
		vAssume(pi <= 2)
		a0, a1 := int(vU8()), int(vU8())
		vAssume(a0 <= 2 && a1 <= 2)
		answers[0], answers[1] = a0, a1
		asked, order = 0, nil
		err := fw.Validate(peers[pi])
		if pi == 2 {
			vReach("allowlisted")
			vAssert(err == nil, "an allowlisted peer was rejected")
			continue
		}
		posValid := posAt[pi] != 0 && now-posAt[pi] <= int64(PositiveIsRecognizedCachePeriod)
		negValid := negAt[pi] != 0 && now-negAt[pi] <= int64(NegativeIsRecognizedCachePeriod)
		if asked == 0 {
			vReach("reused")
			// no application consulted: only a remembered, unexpired answer may be reused
			if err == nil {
				vAssert(posValid, "peer admitted without consulting the applications and without an unexpired positive answer")
			} else {
				vAssert(err == errNotRecognized && negValid, "peer rejected without consulting the applications and without an unexpired negative answer")
			}
			continue
		}
		vReach("consulted")
		// applications consulted in order; the verdict follows their answers
		for j := range order {
			vAssert(order[j] == j, "applications must be consulted in order, each at most once")
		}
		switch {
		case a0 == 1 || (a0 == 0 && a1 == 1):
			vAssert(err == nil, "a peer recognised by an application was rejected")
			posAt[pi] = now
		case a0 == 2 || a1 == 2:
			vReach("app-error")
			vAssert(err != nil && err != errNotRecognized, "a failed recognition check must surface as an error")
			// nothing may be remembered: checked by the next rounds (a rejection
			// reused without an unexpired negative answer is flagged above)
		default:
			vAssert(err == errNotRecognized, "a peer no application recognises was admitted")
			negAt[pi] = now
		}
		if a0 == 1 {
			vAssert(asked == 1, "applications consulted after one already recognised the peer")
		}
	}
	vReach("done")
}
