package tbtc

import (
	"crypto/ecdsa"
	"crypto/sha256"
	"encoding/binary"
	"fmt"
	"math/rand"

	"github.com/keep-network/keep-core/pkg/chain"
)

var vPKH [20]byte

// replaces bitcoin.PublicKeyHash (HASH160 of a curve point, outside the claim)
func vPublicKeyHash(*ecdsa.PublicKey) [20]byte { return vPKH }

type vstubSeedChain struct {
	Chain
	asked []uint64
	hash  [32]byte
	fail  bool
}

func (c *vstubSeedChain) GetBlockHashByNumber(n uint64) ([32]byte, error) {
	c.asked = append(c.asked, n)
	if c.fail {
		return [32]byte{}, fmt.Errorf("verif: no block")
	}
	return c.hash, nil
}

func vSeats() int {
	if vThorough() {
		return 4
	}
	return 3
}

func vSymSeed() [32]byte {
	var s [32]byte
	for i := 0; i < 8; i++ { // only the first 8 bytes feed the generator
		s[i] = vU8()
	}
	s[8], s[31] = vU8(), vU8()
	return s
}

// Two members whose local operator lists differ in order and repetition (same
// set) elect the same leader, and it is one of the operators.
func VerifC22_Leader() {
	n := vSeats()
	a := make(chain.Addresses, n)
	for i := range a {
		c := vU8()
		vAssume(c >= 'a' && c <= 'd')
		a[i] = chain.Address(string([]byte{c}))
	}
	b := make(chain.Addresses, n)
	switch vRange(0, 2) {
	case 0:
		for i := range a {
			b[n-1-i] = a[i]
		}
	case 1:
		for i := range a {
			b[(i+1)%n] = a[i]
		}
	default:
		copy(b, a)
		b[0], b[1] = b[1], b[0]
	}
	if vBool() { // a view with one more seat of an operator already present
		b = append(b, b[0])
	}
	seed := vSymSeed()
	ceA := &coordinationExecutor{coordinatedWallet: wallet{signingGroupOperators: a}}
	ceB := &coordinationExecutor{coordinatedWallet: wallet{signingGroupOperators: b}}
	la, lb := ceA.getLeader(seed), ceB.getLeader(seed)
	vReach("leaders")
	vAssert(la == lb, "two members elected different leaders for the same wallet, window and seed")
	in := false
	for _, o := range a {
		in = in || o == la
	}
	vAssert(in, "the elected leader is not one of the wallet's operators")
}

// Checklist: a function of (window index, seed) only, with the documented shape.
func VerifC22_Checklist() {
	w := vU64()
	seed := vSymSeed()
	ceA := &coordinationExecutor{coordinatedWallet: wallet{signingGroupOperators: chain.Addresses{"a", "b"}}}
	ceB := &coordinationExecutor{coordinatedWallet: wallet{signingGroupOperators: chain.Addresses{"c"}}, operatorAddress: "c"}
	la, lb := ceA.getActionsChecklist(w, seed), ceB.getActionsChecklist(w, seed)
	vAssert(len(la) == len(lb), "checklists of two members differ")
	for i := range la {
		vAssert(la[i] == lb[i], "checklists of two members differ")
	}
	if w == 0 {
		vReach("window-zero")
		vAssert(la == nil, "window index 0 must yield no checklist")
		return
	}
	draw := rand.New(rand.NewSource(int64(binary.BigEndian.Uint64(seed[:8])))).Float64() < coordinationHeartbeatProbability
	want := []WalletActionType{ActionRedemption}
	if w%4 == 0 {
		vReach("fourth-window")
		want = append(want, ActionDepositSweep, ActionMovedFundsSweep, ActionMovingFunds)
	}
	if draw {
		vReach("heartbeat")
		want = append(want, ActionHeartbeat)
	}
	vAssert(len(la) == len(want), "checklist does not have the documented shape")
	for i := range want {
		vAssert(la[i] == want[i], "checklist does not have the documented shape")
	}
}

// Seed: hash of wallet public key hash followed by the hash of the block 32
// blocks before the coordination block.
func VerifC22_Seed() {
	for i := range vPKH {
		vPKH[i] = vU8()
	}
	c := &vstubSeedChain{fail: vBool()}
	for i := range c.hash {
		c.hash[i] = vU8()
	}
	block := vU64()
	ce := &coordinationExecutor{chain: c, coordinatedWallet: wallet{}}
	seed, err := ce.getSeed(block)
	vAssert(len(c.asked) == 1 && c.asked[0] == block-coordinationSafeBlockShift, "seed must use the hash of the safe block (coordination block - 32)")
	vAssert((err != nil) == c.fail, "seed error must reflect the chain error")
	if err != nil {
		return
	}
	vReach("seed")
	want := sha256.Sum256(append(append([]byte{}, vPKH[:]...), c.hash[:]...))
	vAssert(seed == want, "seed is not SHA-256(wallet public key hash || safe block hash)")
	// a different safe block hash or wallet gives a different seed
	other := c.hash
	other[vRange(0, 31)] ^= 1
	alt := sha256.Sum256(append(append([]byte{}, vPKH[:]...), other[:]...))
	vAssert(seed != alt, "seed does not depend on the safe block hash")
}
