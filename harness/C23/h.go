package tbtc

import (
	"context"
	"sync"
)

// Any stream of k block numbers (duplicates, gaps, regressions; values drawn
// so that multiples of the window frequency are common) and any cancellation
// point: the windows started must be exactly those of the reference filter
// over the blocks the watcher actually received.
func VerifC23_Windows() {
	k := 3
	if vThorough() {
		k = 5
	}
	ctx, cancel := context.WithCancel(context.Background())
	blocks := make(chan uint64)
	stream := make([]uint64, k)
	for i := range stream {
		stream[i] = vU64()
	}
	cancelAt := vRange(0, k)
	var mu sync.Mutex
	var started []uint64
	done := make(chan struct{})
	go func() {
		watchCoordinationWindows(ctx, func(context.Context) <-chan uint64 { return blocks }, func(w *coordinationWindow) {
			mu.Lock()
			started = append(started, w.coordinationBlock)
			mu.Unlock()
		})
		close(done)
	}()
	var received []uint64
	for i := 0; i < k; i++ {
		if i == cancelAt {
			cancel()
		}
		select {
		case blocks <- stream[i]:
			received = append(received, stream[i])
		case <-done:
		}
	}
	cancel()
	<-done
	vQuiesce()
	vReach("watch-ended")
	// reference filter over the received blocks (branch-free so that it folds into terms)
	mu.Lock()
	defer mu.Unlock()
	want := 0
	last, have := uint64(0), false
	for _, b := range received {
		e := b%coordinationFrequencyBlocks == 0 && b > 0 && (!have || b > last)
		if e {
			last, have = b, true
			want++
		}
		found := false
		for _, s := range started {
			found = found || s == b
		}
		vAssert(!e || found, "a new coordination window was not started")
	}
	if len(started) >= 2 {
		vReach("two-windows")
	}
	vAssert(len(started) == want, "a window was started twice, out of order, or for a block that is not a positive multiple of the window frequency")
}
