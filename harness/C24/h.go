package tbtc

import (
	"context"
	"crypto/ecdsa"
	"crypto/elliptic"

	"github.com/ipfs/go-log/v2"
	"github.com/keep-network/keep-core/pkg/bitcoin"
	"github.com/keep-network/keep-core/pkg/chain"
	"github.com/keep-network/keep-core/pkg/net"
	"github.com/keep-network/keep-core/pkg/protocol/group"
)

var vPKH = [20]byte{1, 2, 3}

func vPublicKeyHash(*ecdsa.PublicKey) [20]byte { return vPKH }

// operators' network keys are one byte; the address of key k is vKeyAddr[k]
var vKeyAddr = []chain.Address{"a", "b", "c", "x"} // "x": a stranger outside the wallet

type vstubSigning struct{ chain.Signing }

func (s *vstubSigning) PublicKeyBytesToAddress(k []byte) chain.Address {
	if len(k) != 1 || int(k[0]) >= len(vKeyAddr) {
		return "x"
	}
	return vKeyAddr[k[0]]
}

type vstubChain struct{ Chain }

func (c *vstubChain) Signing() chain.Signing { return &vstubSigning{} }

type vMsg struct {
	key     byte
	payload interface{}
	onRead  func()
}

func (m *vMsg) TransportSenderID() net.TransportIdentifier { return nil }
func (m *vMsg) SenderPublicKey() []byte                    { return []byte{m.key} }
func (m *vMsg) Payload() interface{} {
	if m.onRead != nil {
		m.onRead()
	}
	return m.payload
}
func (m *vMsg) Type() string  { return "verif" }
func (m *vMsg) Seqno() uint64 { return 0 }

type vstubChannel struct {
	net.BroadcastChannel
	queue []net.Message
}

func (c *vstubChannel) Recv(ctx context.Context, h func(net.Message)) {
	for _, m := range c.queue {
		h(m)
	}
}

type vProposal struct {
	NoopProposal
	action WalletActionType
	id     int
}

func (p *vProposal) ActionType() WalletActionType { return p.action }

type vOther struct{}

func (o *vOther) Type() string { return "other" }

func VerifC24_Follower() {
	k := 2
	if vThorough() {
		k = 3
	}
	ops := chain.Addresses{"a", "b", "a", "c"} // operator a holds seats 1 and 3
	leaderKey := vRange(0, 2)
	leader := vKeyAddr[leaderKey]
	self := vKeyAddr[(leaderKey+1)%3] // the follower is another operator
	w := wallet{signingGroupOperators: ops}
	if !vSymbolic() { // native run: a real key, hashed by the real function
		w.publicKey = &ecdsa.PublicKey{Curve: elliptic.P256(), X: elliptic.P256().Params().Gx, Y: elliptic.P256().Params().Gy}
		vPKH = bitcoin.PublicKeyHash(w.publicKey)
	}
	own := w.membersByOperator(self)
	leaderID := w.membersByOperator(leader)[0]
	block := uint64(900 * 7)
	allowed := []WalletActionType{ActionRedemption, ActionHeartbeat}

	type spec struct {
		isCoord, sameBlock, sameWallet bool
		sender                         group.MemberIndex
		key                            byte
		action                         WalletActionType
	}
	specs := make([]spec, k)
	ch := &vstubChannel{}
	ctx, cancel := context.WithCancel(context.Background())
	for i := range specs {
		s := &specs[i]
		s.isCoord = vBool()
		blockDelta, walletFlip := vU8(), vU8() // symbolic: compared by the code only when the message gets that far
		s.sameBlock, s.sameWallet = blockDelta == 0, walletFlip == 0
		s.sender = group.MemberIndex(vU8())
		s.key = vU8()
		vAssume(s.key <= 3)
		s.action = WalletActionType(vU8())
		vAssume(s.action <= 5)
		var payload interface{} = &vOther{}
		if s.isCoord {
			m := &coordinationMessage{senderID: s.sender, coordinationBlock: block + 900*uint64(blockDelta), walletPublicKeyHash: vPKH, proposal: &vProposal{action: s.action, id: i}}
			m.walletPublicKeyHash[0] ^= walletFlip
			payload = m
		}
		ch.queue = append(ch.queue, &vMsg{key: s.key, payload: payload})
	}
	// sentinel: the active phase ends after the k messages were looked at
	ch.queue = append(ch.queue, &vMsg{payload: &vOther{}, onRead: cancel})
	ce := &coordinationExecutor{
		chain: &vstubChain{}, coordinatedWallet: w, membersIndexes: own, operatorAddress: self,
		broadcastChannel:    ch,
		membershipValidator: group.NewMembershipValidator(log.Logger("verif"), ops, &vstubSigning{}),
	}
	proposal, faults, err := ce.executeFollowerRoutine(ctx, leader, block, allowed)
	vObserve("err", err != nil)
	vObserve("faults", len(faults))

	// reference: the statement's rules applied to the history in order
	fi := 0
	accepted := -1
	for i := 0; i < k && accepted < 0; i++ {
		s := specs[i]
		if !s.isCoord {
			continue
		}
		mine := false
		for _, m := range own {
			mine = mine || m == s.sender
		}
		validSeat := s.sender >= 1 && int(s.sender) <= len(ops) && s.key <= 2 && ops[int(s.sender)-1] == vKeyAddr[s.key]
		if mine || !validSeat || !s.sameBlock || !s.sameWallet {
			continue
		}
		if s.sender != leaderID {
			vReach("impersonation")
			vAssert(fi < len(faults) && faults[fi].faultType == FaultLeaderImpersonation && faults[fi].culprit == vKeyAddr[s.key], "a message posing as the leader must be recorded as a fault of the operator that actually sent it")
			fi++
			continue
		}
		okAction := s.action == ActionRedemption || s.action == ActionHeartbeat
		if !okAction {
			vReach("mistake")
			vAssert(fi < len(faults) && faults[fi].faultType == FaultLeaderMistake && faults[fi].culprit == leader, "a leader proposal with a disallowed action must be recorded as a leader mistake")
			fi++
			continue
		}
		accepted = i
	}
	if accepted >= 0 {
		vReach("accepted")
		vAssert(err == nil && proposal != nil, "the leader's valid proposal was not returned")
		p, ok := proposal.(*vProposal)
		vAssert(ok && p.id == accepted, "the returned proposal is not the first valid proposal of the leader")
		vAssert(len(faults) == fi, "faults recorded for messages that must be ignored")
	} else {
		vReach("idle")
		vAssert(err != nil && proposal == nil, "a proposal was returned although the leader sent nothing valid")
		vAssert(len(faults) == fi+1 && faults[fi].faultType == FaultLeaderIdleness && faults[fi].culprit == leader, "leader idleness must be recorded when no valid proposal arrived")
	}
}
