package tbtc

import (
	"crypto/ecdsa"
	"fmt"
	"math/big"
	"sync"

	"github.com/keep-network/keep-core/pkg/tecdsa"
)

func vMarshalPublicKey(k *ecdsa.PublicKey) ([]byte, error) {
	return []byte{4, byte(k.X.Int64())}, nil
}

func vWalletKey(i int) *ecdsa.PublicKey {
	if vSymbolic() {
		return &ecdsa.PublicKey{X: big.NewInt(int64(i + 1)), Y: big.NewInt(1)}
	}
	x, y := tecdsa.Curve.ScalarBaseMult([]byte{byte(i + 1)})
	return &ecdsa.PublicKey{Curve: tecdsa.Curve, X: x, Y: y}
}

type vmonitor struct {
	mu       sync.Mutex
	running  [2]int
	executed [2]int
	overlap  bool
}

type vAction struct {
	w    int
	key  *ecdsa.PublicKey
	mon  *vmonitor
	gate chan struct{} // execution lasts until the gate is closed
	fail bool
}

func (a *vAction) execute() error {
	a.mon.mu.Lock()
	a.mon.running[a.w]++
	a.mon.executed[a.w]++
	if a.mon.running[a.w] > 1 {
		a.mon.overlap = true
	}
	a.mon.mu.Unlock()
	<-a.gate
	a.mon.mu.Lock()
	a.mon.running[a.w]--
	a.mon.mu.Unlock()
	if a.fail {
		return fmt.Errorf("verif: action failed")
	}
	return nil
}
func (a *vAction) wallet() wallet              { return wallet{publicKey: a.key} }
func (a *vAction) actionType() WalletActionType { return ActionHeartbeat }

// Sequential dispatches against a running action: busy wallet refused, other
// wallet not blocked, wallet free again once its action ended (with either
// outcome).
func VerifC25_BusyAndRelease() {
	d := newWalletDispatcher()
	mon := &vmonitor{}
	keys := []*ecdsa.PublicKey{vWalletKey(0), vWalletKey(1)}
	g1 := make(chan struct{})
	a1 := &vAction{w: 0, key: keys[0], mon: mon, gate: g1, fail: vBool()}
	vAssert(d.dispatch(a1) == nil, "dispatch to an idle wallet refused")
	g2 := make(chan struct{})
	close(g2)
	vAssert(d.dispatch(&vAction{w: 0, key: keys[0], mon: mon, gate: g2}) == errWalletBusy, "a dispatch for a busy wallet was not refused")
	gb := make(chan struct{})
	vAssert(d.dispatch(&vAction{w: 1, key: keys[1], mon: mon, gate: gb}) == nil, "an action of another wallet was refused or blocked by a running action")
	close(g1) // the first action ends
	vQuiesce()
	vReach("released")
	vAssert(d.dispatch(&vAction{w: 0, key: keys[0], mon: mon, gate: g2}) == nil, "wallet not available again after its action ended")
	close(gb)
	vQuiesce()
	mon.mu.Lock()
	vAssert(!mon.overlap, "two actions of one wallet executed at the same time")
	vAssert(mon.executed[0] == 2 && mon.executed[1] == 1, "an accepted action was not executed exactly once")
	mon.mu.Unlock()
}

// Concurrent dispatches: n dispatchers for the same wallet plus one for
// another wallet, under every interleaving.
func VerifC25_ConcurrentDispatch() {
	n, other := 2, 0 // quick: two dispatchers for one wallet; thorough: plus one for another wallet
	if vThorough() {
		other = 1
	}
	d := newWalletDispatcher()
	mon := &vmonitor{}
	keys := []*ecdsa.PublicKey{vWalletKey(0), vWalletKey(1)}
	gate := make(chan struct{})
	res := make([]error, n+1)
	var wg sync.WaitGroup
	for i := 0; i < n+other; i++ {
		i := i
		w := 0
		if i == n {
			w = 1
		}
		wg.Add(1)
		go func() {
			res[i] = d.dispatch(&vAction{w: w, key: keys[w], mon: mon, gate: gate})
			wg.Done()
		}()
	}
	wg.Wait()
	vReach("dispatched")
	accepted := 0
	for i := 0; i < n; i++ {
		vAssert(res[i] == nil || res[i] == errWalletBusy, "unexpected dispatch error")
		if res[i] == nil {
			accepted++
		}
	}
	vAssert(accepted == 1, "of several simultaneous dispatches for one idle wallet exactly one must be accepted while it runs")
	vAssert(res[n] == nil, "the other wallet's action was refused")
	close(gate)
	vQuiesce()
	mon.mu.Lock()
	vAssert(!mon.overlap, "two actions of one wallet executed at the same time")
	vAssert(mon.executed[0] == 1 && mon.executed[1] == other, "an accepted action was not executed exactly once")
	mon.mu.Unlock()
}
