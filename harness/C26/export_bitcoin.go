package bitcoin

// VerifBuilderTx exposes the unsigned transaction a builder holds (harness helper).
func VerifBuilderTx(tb *TransactionBuilder) *Transaction { return tb.internal.toTransaction() }
