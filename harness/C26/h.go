package tbtc

import (
	"crypto/ecdsa"
	"fmt"

	"github.com/keep-network/keep-core/pkg/bitcoin"
)

var vWalletPKH = [20]byte{0xaa, 1, 2}

func vPublicKeyHash(*ecdsa.PublicKey) [20]byte { return vWalletPKH }

// vchain serves the previous transactions the builder looks up
type vchain struct {
	bitcoin.Chain
	txs map[byte]*bitcoin.Transaction
}

func (c *vchain) GetTransaction(h bitcoin.Hash) (*bitcoin.Transaction, error) {
	if t, ok := c.txs[h[0]]; ok {
		return t, nil
	}
	return nil, fmt.Errorf("verif: unknown transaction")
}

func vMainUtxo(c *vchain, value int64) *bitcoin.UnspentTransactionOutput {
	script, _ := bitcoin.PayToWitnessPublicKeyHash(vWalletPKH)
	c.txs[1] = &bitcoin.Transaction{Version: 1, Outputs: []*bitcoin.TransactionOutput{{Value: value, PublicKeyScript: script}}}
	return &bitcoin.UnspentTransactionOutput{Outpoint: &bitcoin.TransactionOutpoint{TransactionHash: bitcoin.Hash{1}, OutputIndex: 0}, Value: value}
}

func vSameScript(a, b []byte) bool {
	if len(a) != len(b) {
		return false
	}
	s := true
	for i := range a {
		s = s && a[i] == b[i]
	}
	return s
}

func VerifC26_Redemption() {
	n := vRange(1, 2)
	if vThorough() {
		n = vRange(1, 3)
	}
	c := &vchain{txs: map[byte]*bitcoin.Transaction{}}
	mainValue := int64(vU32())
	utxo := vMainUtxo(c, mainValue)
	totalFee := int64(vU16())
	var reqs []*RedemptionRequest
	var sumRedeemable int64
	for i := 0; i < n; i++ {
		r := &RedemptionRequest{RequestedAmount: uint64(vU32()), TreasuryFee: uint64(vU16()), RedeemerOutputScript: []byte{0x00, 0x14, byte(i + 1), vU8()}}
		vAssume(r.TreasuryFee <= r.RequestedAmount)
		reqs = append(reqs, r)
		sumRedeemable += int64(r.RequestedAmount - r.TreasuryFee)
	}
	vAssume(sumRedeemable <= mainValue) // the bridge only accepts requests the wallet can cover
	shape := RedemptionChangeFirst
	if vBool() {
		shape = RedemptionChangeLast
	}
	// one distribution function, as the redemption action holds it: it is
	// consulted here and again inside the assembly and must answer the same
	dist := withRedemptionTotalFee(totalFee)
	shares := dist(reqs)
	var sum int64
	for i, s := range shares {
		sum += s
		if i < n-1 {
			vAssert(s == shares[0], "fee shares must be equal except for the last one")
		}
	}
	vAssert(len(shares) == n && sum == totalFee, "fee shares do not add up to the proposed total fee")
	vAssert(shares[n-1]-shares[0] >= 0 && shares[n-1]-shares[0] < int64(n), "the last share must carry exactly the remainder")
	b, err := assembleRedemptionTransaction(c, nil, utxo, reqs, dist, shape)
	vAssert(err == nil, "assembly failed for a coverable request list")
	vReach("assembled")
	tx := bitcoinTx(b)
	vAssert(len(tx.Inputs) == 1 && tx.Inputs[0].Outpoint.TransactionHash == utxo.Outpoint.TransactionHash && tx.Inputs[0].Outpoint.OutputIndex == 0, "the transaction must spend exactly the wallet main UTXO")
	var outSum int64
	for _, o := range tx.Outputs {
		outSum += o.Value
	}
	vAssert(mainValue-outSum == totalFee, "inputs minus outputs is not the proposed fee")
	change := mainValue - sumRedeemable
	walletScript, _ := bitcoin.PayToWitnessPublicKeyHash(vWalletPKH)
	first := 0
	if change > 0 {
		vReach("with-change")
		vAssert(len(tx.Outputs) == n+1, "wrong number of outputs")
		ci := 0
		if shape == RedemptionChangeLast {
			ci = n
		} else {
			first = 1
		}
		vAssert(tx.Outputs[ci].Value == change && vSameScript(tx.Outputs[ci].PublicKeyScript, walletScript), "change must go to the wallet's own witness script at the position the shape prescribes")
	} else {
		vAssert(len(tx.Outputs) == n, "a zero change output was created")
	}
	for i, r := range reqs {
		o := tx.Outputs[first+i]
		vAssert(o.Value == int64(r.RequestedAmount-r.TreasuryFee)-shares[i] && vSameScript(o.PublicKeyScript, r.RedeemerOutputScript), "a redeemer must receive its requested amount minus treasury fee minus its fee share at its own script")
	}
}

func VerifC26_MovingFunds() {
	n := vRange(1, 3)
	c := &vchain{txs: map[byte]*bitcoin.Transaction{}}
	mainValue := int64(vU32())
	fee := int64(vU16())
	vAssume(fee <= mainValue)
	utxo := vMainUtxo(c, mainValue)
	targets := make([][20]byte, n)
	for i := range targets {
		targets[i] = [20]byte{0xbb, byte(i + 1), vU8()}
	}
	b, err := assembleMovingFundsTransaction(c, utxo, targets, fee)
	vAssert(err == nil, "assembly failed")
	vReach("assembled")
	tx := bitcoinTx(b)
	vAssert(len(tx.Inputs) == 1 && tx.Inputs[0].Outpoint.TransactionHash == utxo.Outpoint.TransactionHash, "the transaction must spend exactly the wallet main UTXO")
	vAssert(len(tx.Outputs) == n, "one output per target wallet")
	var outSum int64
	for i, o := range tx.Outputs {
		outSum += o.Value
		want, _ := bitcoin.PayToWitnessPublicKeyHash(targets[i])
		vAssert(vSameScript(o.PublicKeyScript, want), "an output does not pay the target wallet's witness script")
		if i < n-1 {
			vAssert(o.Value == tx.Outputs[0].Value, "target wallets must receive an even split")
		}
	}
	vAssert(mainValue-outSum == fee, "inputs minus outputs is not the proposed fee")
	d := tx.Outputs[n-1].Value - tx.Outputs[0].Value
	vAssert(d >= 0 && d < int64(n), "the remainder must go to the last target wallet")
}

// bitcoinTx gives the unsigned transaction the builder holds
func bitcoinTx(b *bitcoin.TransactionBuilder) *bitcoin.Transaction {
	return bitcoin.VerifBuilderTx(b)
}
