package tbtc

import (
	"encoding/hex"

	"github.com/keep-network/keep-core/pkg/chain"
)

// vSpend: what the spender supplies and what the spending transaction looks like.
type vSpend struct {
	keyHash    [20]byte // HASH160 of the public key in the witness
	sigValid   bool     // the signature verifies for that key
	txLocktime uint32
	sequence   uint32
}

// vRunScript: reference semantics of the opcodes the deposit script uses
// (push data 1..75, DROP, DUP, HASH160, EQUAL, EQUALVERIFY, IF/ELSE/ENDIF,
// CHECKLOCKTIMEVERIFY per BIP-65, CHECKSIG), evaluated on the witness
// <sig> <pubkey>. The public key is represented by its hash, the signature
// by its validity.
func vRunScript(script []byte, sp vSpend) (ok bool, wellFormed bool) {
	type item struct {
		data   []byte
		isKey  bool // the witness public key (hashes to sp.keyHash)
		isSig  bool
		isBool bool
		b      bool
	}
	stack := []item{{isSig: true}, {isKey: true}}
	pop := func() (item, bool) {
		if len(stack) == 0 {
			return item{}, false
		}
		it := stack[len(stack)-1]
		stack = stack[:len(stack)-1]
		return it, true
	}
	// executing[i]: whether the i-th open IF's current branch executes
	var executing []bool
	run := func() bool {
		for _, e := range executing {
			if !e {
				return false
			}
		}
		return true
	}
	pc := 0
	for pc < len(script) {
		op := script[pc]
		pc++
		switch {
		case op >= 1 && op <= 75:
			if pc+int(op) > len(script) {
				return false, false
			}
			if run() {
				stack = append(stack, item{data: script[pc : pc+int(op)]})
			}
			pc += int(op)
		case op == 0x63: // IF
			cond := false
			if run() {
				it, okp := pop()
				if !okp || !it.isBool {
					return false, false
				}
				cond = it.b
			}
			executing = append(executing, cond)
		case op == 0x67: // ELSE
			if len(executing) == 0 {
				return false, false
			}
			executing[len(executing)-1] = !executing[len(executing)-1]
		case op == 0x68: // ENDIF
			if len(executing) == 0 {
				return false, false
			}
			executing = executing[:len(executing)-1]
		default:
			if !run() {
				continue
			}
			switch op {
			case 0x75: // DROP
				if _, okp := pop(); !okp {
					return false, false
				}
			case 0x76: // DUP
				if len(stack) == 0 {
					return false, false
				}
				stack = append(stack, stack[len(stack)-1])
			case 0xa9: // HASH160
				it, okp := pop()
				if !okp || !it.isKey {
					return false, false
				}
				stack = append(stack, item{data: sp.keyHash[:]})
			case 0x87, 0x88: // EQUAL, EQUALVERIFY
				a, ok1 := pop()
				b, ok2 := pop()
				if !ok1 || !ok2 || a.data == nil || b.data == nil {
					return false, false
				}
				eq := len(a.data) == len(b.data)
				for i := 0; eq && i < len(a.data); i++ {
					eq = a.data[i] == b.data[i]
				}
				if op == 0x88 {
					if !eq {
						return false, true
					}
				} else {
					stack = append(stack, item{isBool: true, b: eq})
				}
			case 0xb1: // CHECKLOCKTIMEVERIFY (BIP-65)
				if len(stack) == 0 {
					return false, false
				}
				top := stack[len(stack)-1]
				if top.data == nil || len(top.data) > 5 || len(top.data) == 0 {
					return false, len(top.data) != 0
				}
				// script number: little endian, sign bit in the top byte
				var v uint64
				for i := range top.data {
					v |= uint64(top.data[i]) << (8 * uint(i))
				}
				if top.data[len(top.data)-1]&0x80 != 0 {
					return false, true // negative locktime
				}
				const threshold = 500000000
				if (v < threshold) != (uint64(sp.txLocktime) < threshold) {
					return false, true
				}
				if v > uint64(sp.txLocktime) {
					return false, true
				}
				if sp.sequence == 0xffffffff {
					return false, true
				}
			case 0xac: // CHECKSIG
				k, ok1 := pop()
				s, ok2 := pop()
				if !ok1 || !ok2 || !k.isKey || !s.isSig {
					return false, false
				}
				stack = append(stack, item{isBool: true, b: sp.sigValid})
			default:
				return false, false
			}
		}
	}
	if len(executing) != 0 || len(stack) != 1 || !stack[0].isBool {
		return false, false
	}
	return stack[0].b, true
}

func VerifC28_DepositScript() {
	d := &Deposit{}
	var depositor [20]byte
	for _, i := range []int{0, 9, 19} {
		depositor[i] = vU8()
	}
	d.Depositor = chain.Address("0x" + hex.EncodeToString(depositor[:]))
	for _, i := range []int{0, 7} {
		d.BlindingFactor[i] = vU8()
	}
	for _, i := range []int{0, 10, 19} {
		d.WalletPublicKeyHash[i], d.RefundPublicKeyHash[i] = vU8(), vU8()
	}
	for i := range d.RefundLocktime {
		d.RefundLocktime[i] = vU8()
	}
	if vBool() {
		var extra [32]byte
		extra[0], extra[31] = vU8(), vU8()
		d.ExtraData = &extra
		vReach("with-extra-data")
	}
	script, err := d.Script()
	vAssert(err == nil, "script generation failed for well-formed parameters")
	sp := vSpend{sigValid: vBool(), txLocktime: vU32(), sequence: vU32()}
	for _, i := range []int{0, 10, 19} {
		sp.keyHash[i] = vU8()
	}
	ok, wellFormed := vRunScript(script, sp)
	vAssert(wellFormed, "the generated script is not well formed (push lengths / opcode structure)")
	vReach("evaluated")
	isWallet := sp.keyHash == d.WalletPublicKeyHash
	isRefund := sp.keyHash == d.RefundPublicKeyHash
	lt := uint64(d.RefundLocktime[0]) | uint64(d.RefundLocktime[1])<<8 | uint64(d.RefundLocktime[2])<<16 | uint64(d.RefundLocktime[3])<<24
	negative := d.RefundLocktime[3]&0x80 != 0
	passed := !negative && (lt < 500000000) == (uint64(sp.txLocktime) < 500000000) && lt <= uint64(sp.txLocktime) && sp.sequence != 0xffffffff
	want := sp.sigValid && (isWallet || (isRefund && passed))
	vAssert(ok == want, "script spendability differs from: wallet key any time, refund key only once the refund locktime has passed, no other key")
	if ok && !isWallet {
		vReach("refund-spend")
	}
}
