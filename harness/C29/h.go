package bitcoin

func vBytes(n int) []byte {
	b := make([]byte, n)
	if n > 0 {
		b[0] = vU8()
		b[n-1] = vU8()
		b[n/2] = vU8()
	}
	return b
}

func vSame(a, b []byte) bool {
	if len(a) != len(b) {
		return false
	}
	same := true
	for i := range a {
		same = same && a[i] == b[i]
	}
	return same
}

// vTx: a transaction of a solver-chosen shape with symbolic field contents.
func vTx(scriptLens []int) *Transaction {
	tx := &Transaction{Version: int32(vU32()), Locktime: vU32()}
	nIn := vRange(1, 2)
	withWitness := vBool()
	for i := 0; i < nIn; i++ {
		in := &TransactionInput{Outpoint: &TransactionOutpoint{OutputIndex: vU32()}, Sequence: vU32()}
		in.Outpoint.TransactionHash[0], in.Outpoint.TransactionHash[31] = vU8(), vU8()
		in.SignatureScript = vBytes(scriptLens[vRange(0, len(scriptLens)-1)])
		if withWitness {
			in.Witness = [][]byte{vBytes(2), vBytes(3)}
		}
		tx.Inputs = append(tx.Inputs, in)
	}
	nOut := vRange(0, 2)
	for i := 0; i < nOut; i++ {
		tx.Outputs = append(tx.Outputs, &TransactionOutput{Value: int64(vU64()), PublicKeyScript: vBytes(scriptLens[vRange(0, len(scriptLens)-1)])})
	}
	return tx
}

func vSameTx(a, b *Transaction) bool {
	if a.Version != b.Version || a.Locktime != b.Locktime || len(a.Inputs) != len(b.Inputs) || len(a.Outputs) != len(b.Outputs) {
		return false
	}
	same := true
	for i := range a.Inputs {
		x, y := a.Inputs[i], b.Inputs[i]
		same = same && x.Outpoint.TransactionHash == y.Outpoint.TransactionHash && x.Outpoint.OutputIndex == y.Outpoint.OutputIndex && x.Sequence == y.Sequence && vSame(x.SignatureScript, y.SignatureScript)
		if len(x.Witness) != len(y.Witness) {
			return false
		}
		for j := range x.Witness {
			same = same && vSame(x.Witness[j], y.Witness[j])
		}
	}
	for i := range a.Outputs {
		same = same && a.Outputs[i].Value == b.Outputs[i].Value && vSame(a.Outputs[i].PublicKeyScript, b.Outputs[i].PublicKeyScript)
	}
	return same
}

func VerifC29_Transaction() {
	lens := []int{0, 1, 3}
	if vThorough() {
		lens = []int{0, 1, 75, 76, 252, 253}
	}
	tx := vTx(lens)
	hasWitness := len(tx.Inputs[0].Witness) > 0
	std := tx.Serialize(Standard)
	full := tx.Serialize(Witness)
	vAssert(std != nil && full != nil, "serialisation failed")
	back := &Transaction{}
	vAssert(back.Deserialize(full) == nil, "deserialising a witness serialisation failed")
	vReach("round-trip")
	vAssert(vSameTx(tx, back), "deserialising the serialisation did not give back the same transaction")
	if !hasWitness {
		vAssert(vSame(std, full), "a transaction without witness data must serialise identically in both formats")
	} else {
		vReach("witness")
		stripped := &Transaction{}
		vAssert(stripped.Deserialize(std) == nil, "deserialising a standard serialisation failed")
		for _, in := range stripped.Inputs {
			vAssert(len(in.Witness) == 0, "standard serialisation carried witness data")
		}
	}
	// the parts are exactly the corresponding slices of the standard serialisation
	v, ins, outs, lt := tx.SerializeVersion(), tx.SerializeInputs(), tx.SerializeOutputs(), tx.SerializeLocktime()
	joined := append(append(append(append([]byte{}, v[:]...), ins...), outs...), lt[:]...)
	vAssert(vSame(joined, std), "version, inputs, outputs and locktime serialisations are not the parts of the full standard serialisation")
}

func VerifC29_HashesScriptsHeaders() {
	var h Hash
	for _, i := range []int{0, 1, 15, 30, 31} {
		h[i] = vU8()
	}
	for _, order := range []ByteOrder{InternalByteOrder, ReversedByteOrder} {
		back, err := NewHashFromString(h.Hex(order), order)
		vAssert(err == nil && back == h, "hash string does not round-trip in this byte order")
	}
	if h[0] != h[31] {
		vAssert(h.Hex(InternalByteOrder) != h.Hex(ReversedByteOrder), "byte orders are not distinguished")
	}
	vReach("hashes")
	s := Script(vBytes(vRange(0, 3)))
	vl, err := s.ToVarLenData()
	vAssert(err == nil, "length-prefixing failed")
	s2, err := NewScriptFromVarLenData(vl)
	vAssert(err == nil && vSame(s, s2), "length-prefixed script does not round-trip")
	bh := &BlockHeader{Version: int32(vU32()), Time: vU32(), Bits: vU32(), Nonce: vU32()}
	bh.PreviousBlockHeaderHash[0], bh.PreviousBlockHeaderHash[31] = vU8(), vU8()
	bh.MerkleRootHash[0], bh.MerkleRootHash[31] = vU8(), vU8()
	raw := bh.Serialize()
	var bh2 BlockHeader
	bh2.Deserialize(raw)
	vAssert(bh2 == *bh, "block header does not round-trip")
	vReach("headers")
}
