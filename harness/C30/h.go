package bitcoin

import (
	"crypto/ecdsa"
	"math/big"

	"github.com/btcsuite/btcd/btcec"
	"github.com/btcsuite/btcd/mempool"
	"github.com/btcsuite/btcutil"
)

// signature validity is not what sizes depend on
func vVerifyTrue(pub *ecdsa.PublicKey, hash []byte, r, s *big.Int) bool { return true }

type vchain30 struct {
	Chain
	scripts [][]byte
}

func (c *vchain30) GetTransaction(h Hash) (*Transaction, error) {
	tx := &Transaction{Version: 1}
	for _, s := range c.scripts {
		tx.Outputs = append(tx.Outputs, &TransactionOutput{Value: 100000, PublicKeyScript: s})
	}
	return tx, nil
}

const (
	kP2PKH = iota
	kP2WPKH
	kP2SH
	kP2WSH
)

// secp256k1 group order
var vN, _ = new(big.Int).SetString("fffffffffffffffffffffffffffffffebaaedce6af48a03bbfd25e8cd0364141", 16)

var vPub = func() *ecdsa.PublicKey {
	x, _ := new(big.Int).SetString("79be667ef9dcbbac55a06295ce870b07029bfcdb2dce28d959f2815b16f81798", 16)
	y, _ := new(big.Int).SetString("483ada7726a3c4655da4fbfc0e1108a8fd17b448a68554199c47d08ffb10d4b8", 16)
	return &ecdsa.PublicKey{Curve: btcec.S256(), X: x, Y: y}
}

func vLockingScript(kind int, redeem []byte) []byte {
	var s Script
	switch kind {
	case kP2PKH:
		s, _ = PayToPublicKeyHash([20]byte{1})
	case kP2WPKH:
		s, _ = PayToWitnessPublicKeyHash([20]byte{2})
	case kP2SH:
		s, _ = PayToScriptHash([20]byte{3})
	default:
		s, _ = PayToWitnessScriptHash([32]byte{4})
	}
	return s
}

// vShape builds, for one list of input kinds / output kinds / redeem script
// length, the wallet's real signed transaction and the estimator's figure.
func vShape(inKinds, outKinds []int, redeemLen int, sigs []*SignatureContainer) (real, est int64) {
	c := &vchain30{}
	redeem := make([]byte, redeemLen)
	for i := range redeem {
		redeem[i] = 0x51
	}
	for _, k := range inKinds {
		c.scripts = append(c.scripts, vLockingScript(k, redeem))
	}
	tb := NewTransactionBuilder(c)
	e := NewTransactionSizeEstimator()
	for i, k := range inKinds {
		utxo := &UnspentTransactionOutput{Outpoint: &TransactionOutpoint{TransactionHash: Hash{9}, OutputIndex: uint32(i)}, Value: 100000}
		var err error
		switch k {
		case kP2PKH, kP2WPKH:
			err = tb.AddPublicKeyHashInput(utxo)
			e.AddPublicKeyHashInputs(1, k == kP2WPKH)
		default:
			err = tb.AddScriptHashInput(utxo, redeem)
			e.AddScriptHashInputs(1, redeemLen, k == kP2WSH)
		}
		vAssert(err == nil, "the builder refused a standard input")
	}
	for _, k := range outKinds {
		tb.AddOutput(&TransactionOutput{Value: 5000, PublicKeyScript: vLockingScript(k, nil)})
		switch k {
		case kP2PKH, kP2WPKH:
			e.AddPublicKeyHashOutputs(1, k == kP2WPKH)
		default:
			e.AddScriptHashOutputs(1, k == kP2WSH)
		}
	}
	_, err := tb.ComputeSignatureHashes()
	vAssert(err == nil, "signature hashes failed")
	_, err = tb.AddSignatures(sigs)
	vAssert(err == nil, "signing failed")
	est, err = e.VirtualSize()
	vAssert(err == nil, "estimator failed")
	real = mempool.GetTxVirtualSize(btcutil.NewTx(tb.internal.MsgTx))
	return
}

// any signature the threshold wallet can produce: 1 <= r, s < N
func vScalar(full bool) *big.Int {
	var b [32]byte
	for i := range b {
		b[i] = vU8()
	}
	x := new(big.Int).SetBytes(b[:])
	vAssume(x.Sign() > 0 && x.Cmp(vN) < 0)
	if full {
		vAssume(b[0] != 0)
	}
	return x
}

// secp256k1 half order: the wallet's signing protocol emits s at or below it
var vHalfN = new(big.Int).Rsh(vN, 1)

const (
	sigAny       = iota // r, s of any length
	sigFull             // 32-byte r and s
	sigFullLowS         // 32-byte r and s, s already in the lower half (as the signing protocol emits it)
)

func vSig(mode int) *SignatureContainer {
	sig := &SignatureContainer{R: vScalar(mode != sigAny), S: vScalar(mode != sigAny), PublicKey: vPub()}
	if mode == sigFullLowS {
		vAssume(sig.S.Cmp(vHalfN) <= 0)
	}
	return sig
}

// VerifC30_OneInput: one input of each kind signed with an arbitrary
// signature, one output. Thorough: r and s of every byte length (DER
// signatures of 8 to 72 bytes); quick: 32-byte r and s (70 to 72 bytes, the
// long end, plus whatever low-S normalisation shortens s to).
func vOneInputMode() int {
	if vThorough() {
		return sigAny
	}
	return sigFull
}

func VerifC30_OneInput() {
	k := vRange(0, 3)
	real, est := vShape([]int{k}, []int{kP2WPKH}, 126, []*SignatureContainer{vSig(vOneInputMode())})
	vReach("sized")
	vAssert(est >= real, "the estimated virtual size is below the virtual size of the real signed transaction")
}

// VerifC30_Inputs: every combination of input kinds for 1..2 (thorough: 3)
// inputs, deposit scripts of 92 or 126 bytes, 32-byte r and s per signature.
func VerifC30_Inputs() {
	n := vRange(1, 2)
	if vThorough() {
		n = vRange(1, 3)
	}
	redeemLen := 92
	if vBool() {
		redeemLen = 126
	}
	var kinds []int
	var sigs []*SignatureContainer
	for i := 0; i < n; i++ {
		kinds = append(kinds, vRange(0, 3))
		sigs = append(sigs, vSig(sigFullLowS))
	}
	real, est := vShape(kinds, []int{kP2WPKH}, redeemLen, sigs)
	vReach("sized")
	vAssert(est >= real, "the estimated virtual size is below the virtual size of the real signed transaction")
}

// VerifC30_Outputs: every combination of output kinds for 0..3 outputs
// behind one P2WPKH input.
func VerifC30_Outputs() {
	n := vRange(0, 3)
	var kinds []int
	for i := 0; i < n; i++ {
		kinds = append(kinds, vRange(0, 3))
	}
	real, est := vShape([]int{kP2WPKH}, kinds, 0, []*SignatureContainer{vSig(sigFullLowS)})
	vReach("sized")
	vAssert(est >= real, "the estimated virtual size is below the virtual size of the real signed transaction")
}

// VerifC30_RedeemScriptLength: one script-hash input (witness or not) whose
// redeem script length runs over the push-opcode and compact-size boundaries.
func VerifC30_RedeemScriptLength() {
	var l int
	if vThorough() {
		// a 1-byte redeem script is outside the claim: the script builder
		// encodes a single byte 1..16 or 0x81 as a bare opcode, so the
		// all-zero placeholder is one byte shorter than e.g. a lone 0x51
		l = vRange(2, 520)
	} else if vBool() {
		l = vRange(72, 80)
	} else {
		l = vRange(250, 258)
	}
	k := kP2SH
	if vBool() {
		k = kP2WSH
	}
	real, est := vShape([]int{k}, []int{kP2WPKH}, l, []*SignatureContainer{vSig(sigFullLowS)})
	vReach("sized")
	vAssert(est >= real, "the estimated virtual size is below the virtual size of the real signed transaction")
}
