package bitcoin

import (
	"bytes"
	"encoding/asn1"
	"encoding/binary"
	"encoding/hex"
	"math/big"

	"github.com/btcsuite/btcd/btcec"
)

// VerifC30_Models: the engine's models of the reflection-driven library
// encoders a signature can pass through (encoding/asn1.Marshal of a struct of
// two big integers, encoding/binary.Write of fixed-size integers) are run
// next to btcec's own DER serialisation; every observation is compared
// between the engine and the native build on solver-chosen and random inputs
// (translator validation), and for a signature already in low-S form the two
// DER encoders must agree byte for byte.
func VerifC30_Models() {
	var rb, sb [32]byte
	for i := range rb {
		rb[i], sb[i] = vU8(), vU8()
	}
	r, s := new(big.Int).SetBytes(rb[:]), new(big.Int).SetBytes(sb[:])
	vAssume(r.Sign() > 0 && s.Sign() > 0)
	if !vThorough() {
		vAssume(rb[0] != 0 && sb[0] != 0)
	}
	der, err := asn1.Marshal(struct{ R, S *big.Int }{r, s})
	vAssert(err == nil, "asn1.Marshal failed")
	vObserve("asn1", hex.EncodeToString(der))
	own := (&btcec.Signature{R: r, S: s}).Serialize()
	vObserve("btcec", hex.EncodeToString(own))
	if s.Cmp(btcec.S256().N) < 0 && s.Cmp(new(big.Int).Rsh(btcec.S256().N, 1)) <= 0 {
		vReach("low-s")
		vAssert(bytes.Equal(der, own), "for a low-S signature both DER encoders must agree")
	}
	var buf bytes.Buffer
	x := vU32()
	vAssert(binary.Write(&buf, binary.LittleEndian, x) == nil && binary.Write(&buf, binary.BigEndian, uint16(x)) == nil, "binary.Write failed")
	vObserve("binary", hex.EncodeToString(buf.Bytes()))
}
