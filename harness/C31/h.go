package bitcoin

import (
	"crypto/sha256"
	"encoding/hex"
	"fmt"
)

var vErr = fmt.Errorf("verif: chain error")

// vchain: a Bitcoin chain whose tip may grow between any two queries. The
// watched transaction sits in block txHeight; heights above the tip do not
// exist; a Merkle proof is only available for the block that really contains
// the transaction (as an Electrum server answers).
type vchain struct {
	Chain
	tip, txHeight uint
	growthLeft    int
	grew          bool
	txHash        Hash
	nodes         [2][4]byte // symbolic part of the transaction's Merkle branch nodes
	position      uint
}

func (c *vchain) tick() {
	if c.growthLeft > 0 && vBool() {
		c.tip++
		c.growthLeft--
		c.grew = true
	}
}

func vCoinbaseHash(height uint) Hash {
	var h Hash
	h[0], h[1], h[31] = 0xcb, byte(height), byte(height>>8)
	return h
}

func (c *vchain) header(h uint) *BlockHeader {
	return &BlockHeader{Version: 2, Time: uint32(h), Bits: 0x1d00ffff, Nonce: uint32(h) * 7, PreviousBlockHeaderHash: vCoinbaseHash(h - 1)}
}

func vNode(tag byte, sym [4]byte) string {
	b := make([]byte, 32)
	b[0], b[1] = tag, sym[0]
	b[15], b[16], b[31] = sym[1], sym[2], sym[3]
	return hex.EncodeToString(b)
}

func (c *vchain) branch(hash Hash, height uint) *TransactionMerkleProof {
	if hash == c.txHash {
		return &TransactionMerkleProof{BlockHeight: height, MerkleNodes: []string{vNode(1, c.nodes[0]), vNode(2, c.nodes[1])}, Position: c.position}
	}
	// coinbase of that block: position 0, nodes tagged with the height
	return &TransactionMerkleProof{BlockHeight: height, MerkleNodes: []string{vNode(3, [4]byte{byte(height)})}, Position: 0}
}

func (c *vchain) GetTransactionConfirmations(h Hash) (uint, error) {
	c.tick()
	return c.tip - c.txHeight + 1, nil
}
func (c *vchain) GetLatestBlockHeight() (uint, error) { c.tick(); return c.tip, nil }
func (c *vchain) GetTransaction(h Hash) (*Transaction, error) {
	c.tick()
	if h == c.txHash {
		return &Transaction{Version: 1, Locktime: 99}, nil
	}
	// coinbase transactions are distinguishable by block (locktime = height tag)
	return &Transaction{Version: 1, Locktime: uint32(h[1]) | uint32(h[31])<<8}, nil
}
func (c *vchain) GetBlockHeader(h uint) (*BlockHeader, error) {
	c.tick()
	if h > c.tip {
		return nil, vErr
	}
	return c.header(h), nil
}
func (c *vchain) GetTransactionMerkleProof(hash Hash, height uint) (*TransactionMerkleProof, error) {
	c.tick()
	if height > c.tip {
		return nil, vErr
	}
	if hash == c.txHash && height != c.txHeight {
		return nil, vErr // the transaction is not in that block
	}
	if hash != c.txHash && hash != vCoinbaseHash(height) {
		return nil, vErr
	}
	return c.branch(hash, height), nil
}
func (c *vchain) GetCoinbaseTxHash(height uint) (Hash, error) {
	c.tick()
	if height > c.tip {
		return Hash{}, vErr
	}
	return vCoinbaseHash(height), nil
}

func vReversedNodes(p *TransactionMerkleProof) []byte {
	var out []byte
	for _, n := range p.MerkleNodes {
		b, _ := hex.DecodeString(n)
		for i := len(b) - 1; i >= 0; i-- {
			out = append(out, b[i])
		}
	}
	return out
}

func vSameBytes(a, b []byte) bool {
	if len(a) != len(b) {
		return false
	}
	same := true
	for i := range a {
		same = same && a[i] == b[i]
	}
	return same
}

func VerifC31_Assemble() {
	maxReq, growth := 2, 1
	if vThorough() {
		maxReq, growth = 4, 2
	}
	required := uint(vRange(1, maxReq))
	c := &vchain{growthLeft: growth}
	c.txHeight = uint(vU16()) + 10
	depth := uint(vU8()) // confirmations - 1 at the start
	vAssume(depth <= 5)
	c.tip = c.txHeight + depth
	c.txHash = Hash{0x7a, 1, 2, 3}
	for i := range c.nodes {
		for j := range c.nodes[i] {
			c.nodes[i][j] = vU8()
		}
	}
	c.position = uint(vU16())
	confsAtStart := depth + 1
	tx, proof, err := AssembleSpvProof(c.txHash, required, c)
	vObserve("err", err != nil)
	if err != nil {
		vReach("failed")
		// no chain growth during assembly and enough confirmations: must succeed
		vAssert(c.grew || confsAtStart < required, "proof assembly failed although the transaction has the required confirmations and the chain did not move")
		return
	}
	vReach("assembled")
	vAssert(tx != nil && tx.Locktime == 99, "returned transaction is not the requested one")
	vAssert(proof.TxIndexInBlock == c.position, "stated position is not the transaction's position in its block")
	vAssert(vSameBytes(proof.MerkleProof, vReversedNodes(c.branch(c.txHash, c.txHeight))), "Merkle proof is not the byte-reversed branch of the transaction in its block")
	var headers []byte
	for h := c.txHeight; h < c.txHeight+required; h++ {
		s := c.header(h).Serialize()
		headers = append(headers, s[:]...)
	}
	vAssert(vSameBytes(proof.BitcoinHeaders, headers), "headers are not the required-length chain starting at the transaction's block")
	cb, _ := c.GetTransaction(vCoinbaseHash(c.txHeight))
	vAssert(proof.CoinbasePreimage == sha256.Sum256(cb.Serialize(Standard)), "coinbase preimage does not belong to the transaction's block")
	vAssert(vSameBytes(proof.CoinbaseProof, vReversedNodes(c.branch(vCoinbaseHash(c.txHeight), c.txHeight))), "coinbase proof does not belong to the transaction's block")
}
