package spv

import (
	"math/big"

	"github.com/keep-network/keep-core/pkg/bitcoin"
	"github.com/keep-network/keep-core/pkg/maintainer/btcdiff"
)

type vstubBtc struct {
	bitcoin.Chain
	latest, confs uint
}

func (b *vstubBtc) GetLatestBlockHeight() (uint, error) { return b.latest, nil }
func (b *vstubBtc) GetTransactionConfirmations(bitcoin.Hash) (uint, error) {
	return b.confs, nil
}

type vstubSpv struct {
	Chain
	factor *big.Int
}

func (s *vstubSpv) TxProofDifficultyFactor() (*big.Int, error) { return s.factor, nil }

type vstubDiff struct {
	btcdiff.Chain
	epoch    uint64
	cur, prv *big.Int
}

func (d *vstubDiff) CurrentEpoch() (uint64, error) { return d.epoch, nil }
func (d *vstubDiff) GetCurrentAndPrevEpochDifficulty() (*big.Int, *big.Int, error) {
	return d.cur, d.prv, nil
}

// Classification: for every latest height, confirmation count, relay epoch
// and difficulty factor, getProofInfo decides {both current, both previous,
// previous->current, other} exactly by the block arithmetic.
func VerifC32_Classification() {
	latest := uint(vU32())
	confs := uint(vU32())
	vAssume(confs >= 1 && confs <= latest)
	epoch := uint64(vU32())
	vAssume(epoch >= 1)
	fv := vU8()
	vAssume(fv >= 1 && fv < 64)
	f := new(big.Int).SetUint64(uint64(fv))
	ok, acc, req, err := getProofInfo(bitcoin.Hash{}, &vstubBtc{latest: latest, confs: confs},
		&vstubSpv{factor: f}, &vstubDiff{epoch: epoch, cur: big.NewInt(1), prv: big.NewInt(1)})
	vAssert(err == nil, "unexpected error")
	start := uint64(latest - confs + 1)
	end := start + uint64(fv) - 1
	se, ee := start/2016, end/2016
	bothCur := se == epoch && ee == epoch
	bothPrev := se == epoch-1 && ee == epoch-1
	crossing := se == epoch-1 && ee == epoch
	vAssert(ok == (bothCur || bothPrev || crossing), "proof range classified wrongly")
	if !ok {
		vReach("outside")
		vAssert(acc == 0 && req == 0, "non-zero counts for an unprovable range")
		return
	}
	vAssert(acc == confs, "accumulated confirmations not passed through")
	if bothCur || bothPrev {
		vReach("single-epoch")
		vAssert(uint64(req) == uint64(fv), "single-epoch proof must require exactly the difficulty factor")
		return
	}
	vReach("crossing")
	// equal difficulties: exactly the factor is required
	vAssert(uint64(req) == uint64(fv), "crossing proof with equal difficulties must require exactly the factor")
}

// Minimality: when the range crosses from the previous into the current epoch
// (concrete block positions, symbolic difficulties) the returned header count
// is the minimal one whose accumulated difficulty reaches factor*prevDifficulty.
func VerifC32_Minimality() {
	maxF := 5
	bits := 32
	if vThorough() {
		maxF, bits = 12, 80
	}
	fv := vRange(2, maxF)
	nPrev := vRange(1, fv-1)
	epoch := uint64(vRange(1, 2))
	start := epoch*2016 - uint64(nPrev)
	confs := uint(vRange(1, 2))
	latest := uint(start) + confs - 1
	f := big.NewInt(int64(fv))
	dc, dp := vBig(bits), vBig(bits)
	vAssume(dc.Sign() > 0 && dp.Sign() > 0)
	ok, acc, req, err := getProofInfo(bitcoin.Hash{}, &vstubBtc{latest: latest, confs: confs},
		&vstubSpv{factor: f}, &vstubDiff{epoch: epoch, cur: dc, prv: dp})
	vAssert(err == nil && ok, "crossing range must be provable")
	vAssert(acc == confs, "accumulated confirmations not passed through")
	vReach("crossing")
	vAssert(uint64(req) > uint64(nPrev), "crossing proof must contain current-epoch headers")
	nCur := int64(req) - int64(nPrev)
	need := new(big.Int).Mul(f, dp)
	have := func(nc int64) *big.Int {
		a := new(big.Int).Mul(big.NewInt(int64(nPrev)), dp)
		b := new(big.Int).Mul(big.NewInt(nc), dc)
		return a.Add(a, b)
	}
	vAssert(have(nCur).Cmp(need) >= 0, "required confirmations do not accumulate enough difficulty")
	vAssert(have(nCur-1).Cmp(need) < 0, "required confirmations are not minimal")
}
