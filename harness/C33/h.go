package tbtcpg

import (
	"fmt"
	"math/big"
	"time"

	"github.com/ipfs/go-log/v2"
	"github.com/keep-network/keep-core/pkg/bitcoin"
	"github.com/keep-network/keep-core/pkg/tbtc"
)

var vErr = fmt.Errorf("verif: chain failure")

type vdeposit struct {
	block              uint64
	found, swept, fail bool
	ageSeconds         int64
	confirmations      uint
	confFail           bool
}

type vbtc struct {
	bitcoin.Chain
	w *vworld
}

func (b *vbtc) GetTransactionConfirmations(h bitcoin.Hash) (uint, error) {
	d := b.w.deposits[h[1]]
	if d.confFail {
		return 0, vErr
	}
	return d.confirmations, nil
}

type vworld struct {
	Chain
	minAge   uint32
	deposits []*vdeposit
	now      time.Time
}

func (w *vworld) GetDepositMinAge() (uint32, error) { return w.minAge, nil }
func (w *vworld) PastDepositRevealedEvents(*tbtc.DepositRevealedEventFilter) ([]*tbtc.DepositRevealedEvent, error) {
	var evs []*tbtc.DepositRevealedEvent
	for i, d := range w.deposits {
		evs = append(evs, &tbtc.DepositRevealedEvent{FundingTxHash: bitcoin.Hash{0xd0, byte(i)}, FundingOutputIndex: uint32(i), BlockNumber: d.block, WalletPublicKeyHash: [20]byte{7}})
	}
	return evs, nil
}
func (w *vworld) BuildDepositKey(h bitcoin.Hash, idx uint32) *big.Int { return big.NewInt(int64(0x100 + int(h[1]))) }
func (w *vworld) GetDepositRequest(h bitcoin.Hash, idx uint32) (*tbtc.DepositChainRequest, bool, error) {
	d := w.deposits[h[1]]
	if d.fail {
		return nil, false, vErr
	}
	if !d.found {
		return nil, false, nil
	}
	r := &tbtc.DepositChainRequest{Amount: 100000, RevealedAt: time.Unix(w.now.Unix()-d.ageSeconds, 0), SweptAt: time.Unix(0, 0)}
	if d.swept {
		r.SweptAt = time.Unix(w.now.Unix()-10, 0)
	}
	return r, true, nil
}
func VerifC33_FindDeposits() {
	k := 2
	if vThorough() {
		k = 3
	}
	vSetClock(5000000000)
	w := &vworld{minAge: 3600, now: time.Now()}
	for i := 0; i < k; i++ {
		d := &vdeposit{block: uint64(vU8()), found: vBool(), swept: vBool(), fail: vBool(), ageSeconds: int64(vU16()), confirmations: uint(vU8()), confFail: vBool()}
		w.deposits = append(w.deposits, d)
	}
	max := vRange(0, 2)
	skipSwept, skipUnconfirmed := vBool(), vBool()
	got, err := findDeposits(log.Logger("verif"), w, &vbtc{w: w}, [20]byte{7}, max, skipSwept, skipUnconfirmed)

	// reference: stable order by reveal block, first `max` eligible ones
	order := make([]int, k)
	for i := range order {
		order[i] = i
	}
	for i := 1; i < k; i++ {
		for j := i; j > 0 && w.deposits[order[j]].block < w.deposits[order[j-1]].block; j-- {
			order[j], order[j-1] = order[j-1], order[j]
		}
	}
	limit := k
	if max > 0 {
		limit = max
	}
	var want []int
	wantErr, wantNil := false, false
	for _, i := range order {
		if len(want) == limit {
			break
		}
		d := w.deposits[i]
		if d.fail {
			wantErr = true
			break
		}
		if !d.found {
			wantErr, wantNil = true, true
			break
		}
		if d.ageSeconds <= int64(w.minAge) {
			continue
		}
		if skipSwept && d.swept {
			continue
		}
		conf := d.confirmations
		if d.confFail {
			conf = 0
		}
		if skipUnconfirmed && conf < tbtc.DepositSweepRequiredFundingTxConfirmations {
			continue
		}
		want = append(want, i)
	}
	vAssert((err != nil) == wantErr, "error must be reported exactly for a failing or missing deposit request that is reached")
	if wantNil {
		vReach("missing-request")
		vAssert(got == nil, "a missing deposit request must abort discovery")
		return
	}
	if len(want) == 2 {
		vReach("two-selected")
	}
	vAssert(len(got) == len(want), "selected deposits are not exactly the first eligible ones (revealed, old enough, unswept, confirmed) up to the maximum")
	for j := range want {
		vAssert(int(got[j].FundingOutputIndex) == want[j], "selected deposits are not in reveal order")
		vAssert(got[j].RevealBlock == w.deposits[want[j]].block && got[j].IsSwept == w.deposits[want[j]].swept, "deposit details do not belong to the selected deposit")
	}
}

type vtask struct {
	action tbtc.WalletActionType
	ok     bool
	fail   bool
	ran    *[]tbtc.WalletActionType
}

type vprop struct {
	tbtc.NoopProposal
	action tbtc.WalletActionType
}

func (p *vprop) ActionType() tbtc.WalletActionType { return p.action }

func (t *vtask) ActionType() tbtc.WalletActionType { return t.action }
func (t *vtask) Run(*tbtc.CoordinationProposalRequest) (tbtc.CoordinationProposal, bool, error) {
	*t.ran = append(*t.ran, t.action)
	if t.fail {
		return nil, false, vErr
	}
	if !t.ok {
		return nil, false, nil
	}
	return &vprop{action: t.action}, true, nil
}

func VerifC33_Generate() {
	var ran []tbtc.WalletActionType
	actions := []tbtc.WalletActionType{tbtc.ActionRedemption, tbtc.ActionDepositSweep, tbtc.ActionHeartbeat}
	tasks := make([]*vtask, 3)
	pg := &ProposalGenerator{}
	for i := range tasks {
		tasks[i] = &vtask{action: actions[i], ok: vBool(), fail: vBool(), ran: &ran}
		pg.tasks = append(pg.tasks, tasks[i])
	}
	// checklist: any sequence of 2 actions out of 4 (one of them unsupported)
	menu := []tbtc.WalletActionType{tbtc.ActionRedemption, tbtc.ActionDepositSweep, tbtc.ActionHeartbeat, tbtc.ActionMovingFunds}
	checklist := []tbtc.WalletActionType{menu[vRange(0, 3)], menu[vRange(0, 3)]}
	p, err := pg.Generate(&tbtc.CoordinationProposalRequest{ActionsChecklist: checklist})
	var wantAction tbtc.WalletActionType = tbtc.ActionNoop
	wantErr := false
	for _, a := range checklist {
		var t *vtask
		for _, x := range tasks {
			if x.action == a {
				t = x
			}
		}
		if t == nil {
			continue
		}
		if t.fail {
			wantErr = true
			break
		}
		if t.ok {
			wantAction = a
			break
		}
	}
	vReach("generated")
	vAssert((err != nil) == wantErr, "generator must fail exactly on the first failing task it reaches")
	if err == nil {
		vAssert(p.ActionType() == wantAction, "generator must return the first checklist action that yields a proposal, or no-op")
	}
}
