package tbtc

import (
	"fmt"

	"github.com/keep-network/keep-core/pkg/bitcoin"
)

var vErr = fmt.Errorf("verif: chain failure")

// transactions are identified by their locktime; the engine-side hash is the
// identifier in the first byte (double SHA-256 of the serialisation is outside)
func vTxHash(t *bitcoin.Transaction) bitcoin.Hash { return bitcoin.Hash{0x7c, byte(t.Locktime)} }
func vHashOf(id int) bitcoin.Hash                 { return bitcoin.Hash{0x7c, byte(id)} }
func vSpentHashOf(id int) bitcoin.Hash            { return bitcoin.Hash{0x5e, byte(id)} }

var vPKH = [20]byte{9, 9, 9}

type vworld struct {
	keyedRequests bool
	BridgeChain
	bitcoin.Chain
	registered        [32]byte
	eWallet, eHistory bool
	txs               []*bitcoin.Transaction // history, oldest first
	confirmed         []*bitcoin.UnspentTransactionOutput
	mempool           []*bitcoin.UnspentTransactionOutput
	eConfirmed        bool
	eMempool          bool
	firstInputIsDep   [4]bool // per transaction id: its first input is a revealed deposit
	firstInputIsSweep [4]bool // ... or a moved-funds sweep request
}

// injective on (transaction id, output index, value)
func vMainUtxoHash(u *bitcoin.UnspentTransactionOutput) [32]byte {
	var h [32]byte
	h[0], h[1], h[2] = 1, u.Outpoint.TransactionHash[1], byte(u.Outpoint.OutputIndex)
	for i := 0; i < 8; i++ {
		h[8+i] = byte(uint64(u.Value) >> (8 * uint(i)))
	}
	return h
}

func (w *vworld) GetWallet([20]byte) (*WalletChainData, error) {
	if w.eWallet {
		return nil, vErr
	}
	return &WalletChainData{MainUtxoHash: w.registered}, nil
}
func (w *vworld) ComputeMainUtxoHash(u *bitcoin.UnspentTransactionOutput) [32]byte {
	return vMainUtxoHash(u)
}
func (w *vworld) GetTxHashesForPublicKeyHash([20]byte) ([]bitcoin.Hash, error) {
	if w.eHistory {
		return nil, vErr
	}
	var hs []bitcoin.Hash
	for _, t := range w.txs {
		hs = append(hs, vTxHash(t))
	}
	return hs, nil
}
func (w *vworld) GetTransaction(h bitcoin.Hash) (*bitcoin.Transaction, error) {
	for _, t := range w.txs {
		if vTxHash(t) == h {
			return t, nil
		}
	}
	return nil, vErr
}
func (w *vworld) GetUtxosForPublicKeyHash([20]byte) ([]*bitcoin.UnspentTransactionOutput, error) {
	if w.eConfirmed {
		return nil, vErr
	}
	return w.confirmed, nil
}
func (w *vworld) GetMempoolUtxosForPublicKeyHash([20]byte) ([]*bitcoin.UnspentTransactionOutput, error) {
	if w.eMempool {
		return nil, vErr
	}
	return w.mempool, nil
}

// requests are registered for the outpoints the transactions' first inputs
// spend (and for nothing else), so asking about any other outpoint finds none
func (w *vworld) GetDepositRequest(h bitcoin.Hash, idx uint32) (*DepositChainRequest, bool, error) {
	if w.keyedRequests && (h[0] != 0x5e || idx != 1) {
		return nil, false, nil
	}
	return nil, w.firstInputIsDep[h[1]&3], nil
}
func (w *vworld) GetMovedFundsSweepRequest(h bitcoin.Hash, idx uint32) (*MovedFundsSweepRequest, bool, error) {
	if w.keyedRequests && (h[0] != 0x5e || idx != 1) {
		return nil, false, nil
	}
	return nil, w.firstInputIsSweep[h[1]&3], nil
}

func vScripts() [3]bitcoin.Script {
	p2pkh, _ := bitcoin.PayToPublicKeyHash(vPKH)
	p2wpkh, _ := bitcoin.PayToWitnessPublicKeyHash(vPKH)
	other, _ := bitcoin.PayToWitnessPublicKeyHash([20]byte{1})
	return [3]bitcoin.Script{p2pkh, p2wpkh, other}
}

func vHistory(n int) ([]*bitcoin.Transaction, [][]int) {
	scripts := vScripts()
	var txs []*bitcoin.Transaction
	var kinds [][]int
	for t := 0; t < n; t++ {
		tx := &bitcoin.Transaction{Version: 1, Locktime: uint32(t + 1)}
		// the transaction's first input spends output 0 of "transaction" t+1 (looked up in the request tables)
		tx.Inputs = []*bitcoin.TransactionInput{{Outpoint: &bitcoin.TransactionOutpoint{TransactionHash: vHashOf(t + 1), OutputIndex: 0}}}
		var ks []int
		for o := 0; o < 2; o++ {
			k := int(vU8())
			vAssume(k <= 2)
			ks = append(ks, k)
			tx.Outputs = append(tx.Outputs, &bitcoin.TransactionOutput{Value: int64(vU16()), PublicKeyScript: scripts[k]})
		}
		txs = append(txs, tx)
		kinds = append(kinds, ks)
	}
	return txs, kinds
}

func VerifC34_MainUtxo() {
	n := 2
	if vThorough() {
		n = 3
	}
	w := &vworld{eWallet: vBool(), eHistory: vBool()}
	var kinds [][]int
	w.txs, kinds = vHistory(n)
	// registered hash: nothing / the hash of some output (wallet's or not) / unrelated
	sel := int(vU8())
	vAssume(sel <= 2*n+1)
	switch {
	case sel == 0:
	case sel <= 2*n:
		t, o := (sel-1)/2, (sel-1)%2
		w.registered = vMainUtxoHash(&bitcoin.UnspentTransactionOutput{Outpoint: &bitcoin.TransactionOutpoint{TransactionHash: vTxHash(w.txs[t]), OutputIndex: uint32(o)}, Value: w.txs[t].Outputs[o].Value})
	default:
		w.registered = [32]byte{1, 0xff}
	}
	utxo, err := DetermineWalletMainUtxo(vPKH, w, w)
	if w.eWallet {
		vAssert(err != nil && utxo == nil, "wallet lookup failure must surface as an error")
		return
	}
	if sel == 0 {
		vReach("none-registered")
		vAssert(err == nil && utxo == nil, "no main UTXO may be reported when none is registered")
		return
	}
	if w.eHistory {
		vAssert(err != nil && utxo == nil, "history failure must surface as an error")
		return
	}
	// reference: newest transaction first, outputs in order, wallet scripts only
	var wt, wo = -1, -1
	for t := n - 1; t >= 0 && wt < 0; t-- {
		for o := 0; o < 2 && wt < 0; o++ {
			if kinds[t][o] <= 1 && vMainUtxoHash(&bitcoin.UnspentTransactionOutput{Outpoint: &bitcoin.TransactionOutpoint{TransactionHash: vTxHash(w.txs[t]), OutputIndex: uint32(o)}, Value: w.txs[t].Outputs[o].Value}) == w.registered {
				wt, wo = t, o
			}
		}
	}
	if wt < 0 {
		vReach("not-found")
		vAssert(err != nil && utxo == nil, "a main UTXO was reported although no wallet output matches the registered hash")
		return
	}
	vReach("found")
	vAssert(err == nil && utxo != nil, "the wallet output matching the registered hash was not found")
	vAssert(utxo.Outpoint.TransactionHash == vTxHash(w.txs[wt]) && int(utxo.Outpoint.OutputIndex) == wo && utxo.Value == w.txs[wt].Outputs[wo].Value, "reported main UTXO is not the wallet output whose hash is registered")
}

func VerifC34_SyncCheck() {
	w := &vworld{eConfirmed: vBool(), eMempool: vBool(), keyedRequests: true}
	for t := 0; t < 3; t++ { // three fixed transactions; their first inputs are looked up in the request tables
		w.txs = append(w.txs, &bitcoin.Transaction{Version: 1, Locktime: uint32(t + 1),
			Inputs: []*bitcoin.TransactionInput{{Outpoint: &bitcoin.TransactionOutpoint{TransactionHash: vSpentHashOf(t + 1), OutputIndex: 1}}}})
	}
	mk := func() *bitcoin.UnspentTransactionOutput {
		id := int(vU8())
		vAssume(id >= 1 && id <= 3)
		idx := uint32(vU8())
		vAssume(idx <= 1)
		return &bitcoin.UnspentTransactionOutput{Outpoint: &bitcoin.TransactionOutpoint{TransactionHash: vHashOf(id), OutputIndex: idx}, Value: int64(vU16())}
	}
	nc := 1
	if vThorough() {
		nc = 2
	}
	for i := 0; i < vRange(0, nc); i++ {
		w.confirmed = append(w.confirmed, mk())
	}
	if vBool() {
		w.mempool = append(w.mempool, mk())
	}
	for i := 1; i <= 3; i++ {
		w.firstInputIsDep[i], w.firstInputIsSweep[i] = vBool(), vBool()
	}
	var main *bitcoin.UnspentTransactionOutput
	if vBool() {
		main = mk()
	}
	err := EnsureWalletSyncedBetweenChains(vPKH, main, w, w)
	if w.eConfirmed {
		vAssert(err != nil, "UTXO query failure must surface as an error")
		return
	}
	if main != nil {
		vReach("with-main-utxo")
		unspent := false
		for _, u := range w.confirmed {
			unspent = unspent || (u.Outpoint.TransactionHash == main.Outpoint.TransactionHash && u.Outpoint.OutputIndex == main.Outpoint.OutputIndex && u.Value == main.Value)
		}
		vAssert((err == nil) == unspent, "with a registered main UTXO the sync check must pass exactly when that UTXO is still unspent")
		return
	}
	if w.eMempool {
		vAssert(err != nil, "mempool query failure must surface as an error")
		return
	}
	vReach("fresh-wallet")
	fromOwnSweep := false
	for _, u := range append(append([]*bitcoin.UnspentTransactionOutput{}, w.confirmed...), w.mempool...) {
		id := u.Outpoint.TransactionHash[1] & 3
		fromOwnSweep = fromOwnSweep || (u.Outpoint.OutputIndex == 0 && (w.firstInputIsDep[id] || w.firstInputIsSweep[id]))
	}
	vAssert((err == nil) == !fromOwnSweep, "for a fresh wallet the sync check must pass exactly when none of its unspent outputs comes from its own sweep transactions")
}
