package tbtc

import (
	"context"
	"math/big"
	"time"

	"github.com/ipfs/go-log/v2"
	"github.com/keep-network/keep-core/pkg/chain"
	"github.com/keep-network/keep-core/pkg/net"
	"github.com/keep-network/keep-core/pkg/protocol/group"
	"github.com/keep-network/keep-core/pkg/tecdsa"
)

// 1-byte network keys: the address of key k is vKeyAddr[k]
var vKeyAddr = []chain.Address{"a", "b", "c", "d", "x"}

type vstubSigning struct{ chain.Signing }

func (s *vstubSigning) PublicKeyBytesToAddress(k []byte) chain.Address {
	if len(k) != 1 || int(k[0]) >= len(vKeyAddr) {
		return "x"
	}
	return vKeyAddr[k[0]]
}

type vMsg struct {
	key     byte
	payload interface{}
}

func (m *vMsg) TransportSenderID() net.TransportIdentifier { return nil }
func (m *vMsg) SenderPublicKey() []byte                    { return []byte{m.key} }
func (m *vMsg) Payload() interface{}                       { return m.payload }
func (m *vMsg) Type() string                               { return "verif" }
func (m *vMsg) Seqno() uint64                              { return 0 }

type vstubChannel struct {
	net.BroadcastChannel
	handler func(net.Message)
}

func (c *vstubChannel) Recv(ctx context.Context, h func(net.Message)) { c.handler = h }

var vSigs = []*tecdsa.Signature{
	{R: big.NewInt(11), S: big.NewInt(12)},
	{R: big.NewInt(21), S: big.NewInt(22)},
}

// Histories of k done messages, then the member checks for completion.
func VerifC35_Histories() {
	k := 2
	if vThorough() {
		k = 3
	}
	ops := []chain.Address{"a", "b", "c", "d"} // seats 1..4
	included := []group.MemberIndex{1, 2}       // seats 3 and 4 are valid members excluded from this attempt
	msg := big.NewInt(777)
	const attempt, timeout = uint64(3), uint64(1000)
	ch := &vstubChannel{}
	sdc := newSigningDoneCheck(len(ops), ch, group.NewMembershipValidator(log.Logger("verif"), ops, &vstubSigning{}))
	// the retry loop reuses one done-check for all attempts of a message: an
	// earlier attempt (other members, lower attempt number) that timed out must
	// leave nothing behind
	if vBool() {
		vReach("previous-attempt")
		prevCtx, prevCancel := context.WithCancel(context.Background())
		sdc.listen(prevCtx, msg, attempt-1, timeout-100, []group.MemberIndex{1, 3, 4})
		ps := group.MemberIndex(vU8())
		vAssume(ps >= 1 && ps <= 4)
		ch.handler(&vMsg{key: byte(ps - 1), payload: &signingDoneMessage{senderID: ps, message: msg, attemptNumber: attempt - 1, endBlock: 50, signature: vSigs[1]}})
		vQuiesce()
		go func() {
			if !vSymbolic() {
				time.Sleep(350 * time.Millisecond)
			}
			prevCancel()
		}()
		_, _, perr := sdc.waitUntilAllDone(prevCtx)
		vAssert(perr != nil, "an attempt with one confirmation out of three reported a result")
	}
	ctx, cancel := context.WithCancel(context.Background())
	sdc.listen(ctx, msg, attempt, timeout, included)

	type spec struct {
		sender   group.MemberIndex
		key      byte
		sameMsg  bool
		attempt  uint64
		endBlock uint64
		sig      int // 0,1: one of two signatures; 2: none
	}
	specs := make([]spec, k)
	for i := range specs {
		s := &specs[i]
		s.sender = group.MemberIndex(vU8())
		vAssume(s.sender <= 5)
		s.key = vU8()
		vAssume(s.key <= 4)
		s.sameMsg = vBool()
		s.attempt = uint64(vU8())
		s.endBlock = uint64(vU16())
		s.sig = int(vU8())
		vAssume(s.sig <= 2)
		m := &signingDoneMessage{senderID: s.sender, message: msg, attemptNumber: s.attempt, endBlock: s.endBlock}
		if !s.sameMsg {
			m.message = big.NewInt(778)
		}
		if s.sig < 2 {
			m.signature = vSigs[s.sig]
		}
		ch.handler(&vMsg{key: s.key, payload: m})
	}
	vQuiesce() // the listener has looked at every message
	go func() { // runs once the waiter blocks after its first check
		if !vSymbolic() {
			time.Sleep(350 * time.Millisecond) // native run: let the 100 ms check interval elapse first
		}
		cancel()
	}()
	res, end, err := sdc.waitUntilAllDone(ctx)
	vObserve("err", err != nil)

	// reference: first valid confirmation per included member
	var conf [3]*spec // index by member 1..2
	for i := range specs {
		s := &specs[i]
		isIncluded := s.sender == 1 || s.sender == 2
		validSeat := s.sender >= 1 && s.sender <= 4 && s.key <= 3 && int(s.key) == int(s.sender)-1
		if isIncluded && validSeat && s.sameMsg && s.attempt == attempt && s.endBlock <= timeout && s.sig < 2 && conf[s.sender] == nil {
			conf[s.sender] = s
		}
	}
	complete := conf[1] != nil && conf[2] != nil
	if err == nil {
		vReach("result")
		vAssert(complete, "a signature was reported although not every member included in the attempt has confirmed")
		vAssert(conf[1].sig == conf[2].sig && res.Signature.Equals(vSigs[conf[1].sig]), "reported signature is not the one every included member confirmed")
		max := conf[1].endBlock
		if conf[2].endBlock > max {
			max = conf[2].endBlock
		}
		vAssert(end == max, "reported end block is not the latest of the included members' end blocks")
	} else if complete {
		vReach("complete-but-error")
		vAssert(conf[1].sig != conf[2].sig && err != errWaitDoneTimedOut, "all included members confirmed the same signature but no result was reported")
	} else {
		vReach("incomplete")
		vAssert(err == errWaitDoneTimedOut, "incomplete confirmations must end in the timeout error")
	}
}

// A confirmation arrives while the member is already checking for
// completion: the listener's update of the confirmations and the checker's
// reads must be ordered by synchronisation (no data race), and the outcome
// must be one of the two serial ones.
func VerifC35_ConcurrentArrival() {
	ops := []chain.Address{"a", "b"}
	msg := big.NewInt(777)
	ch := &vstubChannel{}
	sdc := newSigningDoneCheck(len(ops), ch, group.NewMembershipValidator(log.Logger("verif"), ops, &vstubSigning{}))
	ctx, cancel := context.WithCancel(context.Background())
	sdc.listen(ctx, msg, 1, 1000, []group.MemberIndex{1, 2})
	for m := 1; m <= 2; m++ {
		ch.handler(&vMsg{key: byte(m - 1), payload: &signingDoneMessage{senderID: group.MemberIndex(m), message: msg, attemptNumber: 1, endBlock: uint64(10 * m), signature: vSigs[0]}})
	}
	go func() {
		if !vSymbolic() {
			time.Sleep(350 * time.Millisecond)
		}
		cancel()
	}()
	res, end, err := sdc.waitUntilAllDone(ctx)
	vReach("checked")
	if err == nil {
		vAssert(res.Signature.Equals(vSigs[0]) && end == 20, "result does not reflect both confirmations")
	}
}
