package tbtc

import (
	"context"
	"crypto/ecdsa"
	"fmt"
	"math/big"

	"github.com/ipfs/go-log/v2"
	"github.com/keep-network/keep-core/pkg/bitcoin"
	"github.com/keep-network/keep-core/pkg/chain"
	"github.com/keep-network/keep-core/pkg/protocol/group"
	"github.com/keep-network/keep-core/pkg/tecdsa"
)

var vErr = fmt.Errorf("verif: injected failure")

// engine-side replacements (curve arithmetic is outside the claim)
func vPublicKeyHash(k *ecdsa.PublicKey) [20]byte { return [20]byte{byte(k.X.Int64())} }
func vMarshalPublicKey(k *ecdsa.PublicKey) ([]byte, error) {
	return []byte{4, byte(k.X.Int64())}, nil
}

func vWalletKey(i int) *ecdsa.PublicKey {
	if vSymbolic() {
		return &ecdsa.PublicKey{X: big.NewInt(int64(i + 1)), Y: big.NewInt(1)}
	}
	x, y := tecdsa.Curve.ScalarBaseMult([]byte{byte(i + 1)})
	return &ecdsa.PublicKey{Curve: tecdsa.Curve, X: x, Y: y}
}

// outcome classes of one heartbeat
const (
	oSuccess = iota // signing done, >= 70 active
	oLow            // signing done, < 70 active, inactive members known
	oLowNoInactive  // signing done, < 70 active, inactive set empty
	oSignErr
	oUnstaking
	oStakeQueryErr
	oInvalid
)

type vround struct {
	Chain
	outcome      int
	variant      bool
	claimErr     bool
	inactive     []group.MemberIndex
	claims       int
	claimChecked func(inactive []group.MemberIndex, failed bool, session *big.Int)
	waits        []uint64
	signedMsg    *big.Int
	signStart    uint64
}

func (r *vround) OperatorToStakingProvider() (chain.Address, bool, error) {
	if r.outcome == oStakeQueryErr {
		if r.variant {
			return "", false, nil // not registered
		}
		return "", false, vErr
	}
	return "0xsp", true, nil
}
func (r *vround) EligibleStake(chain.Address) (*big.Int, error) {
	if r.outcome == oUnstaking {
		return big.NewInt(0), nil
	}
	return big.NewInt(5), nil
}
func (r *vround) ValidateHeartbeatProposal([20]byte, *HeartbeatProposal) error {
	if r.outcome == oInvalid {
		return vErr
	}
	return nil
}
func (r *vround) sign(ctx context.Context, m *big.Int, start uint64) (*tecdsa.Signature, *signingActivityReport, uint64, error) {
	r.signedMsg, r.signStart = m, start
	if r.outcome == oSignErr {
		if r.variant {
			// the signing window elapsed: still a signing error, not a completed low-activity heartbeat
			if r.claimErr {
				return nil, nil, 0, fmt.Errorf("verif: signing timed out: [%w]", context.DeadlineExceeded)
			}
			return nil, nil, 0, fmt.Errorf("verif: signing cancelled: [%w]", context.Canceled)
		}
		return nil, nil, 0, vErr
	}
	n := 100
	switch r.outcome {
	case oSuccess:
		if r.variant {
			n = 70 // boundary: exactly the minimum
		}
	case oLow, oLowNoInactive:
		n = 69
		if r.variant {
			n = 0
		}
	}
	rep := &signingActivityReport{activeMembers: make([]group.MemberIndex, n)}
	if r.outcome != oLowNoInactive {
		rep.inactiveMembers = r.inactive
	}
	return &tecdsa.Signature{R: big.NewInt(1), S: big.NewInt(2)}, rep, 0, nil
}
func (r *vround) claimInactivity(ctx context.Context, inactive []group.MemberIndex, failed bool, session *big.Int) error {
	r.claims++
	r.claimChecked(inactive, failed, session)
	if r.claimErr {
		return vErr
	}
	return nil
}

func VerifC36_Escalation() {
	// Inductive: the counter starts in an arbitrary state (any run length per
	// wallet, or fresh), so the k rounds stand for the tail of any history.
	k := 2
	if vThorough() {
		k = 3
	}
	counter := newHeartbeatFailureCounter()
	keys := []*ecdsa.PublicKey{vWalletKey(0), vWalletKey(1)}
	// ghost bounds on a wallet's run of consecutive low-activity heartbeats:
	// lo counts strictly consecutive ones (anything else breaks the run), hi
	// counts those since the last successful heartbeat (errors, unstaking and
	// invalid proposals in between do not break it). The statement allows an
	// implementation anywhere in between; the counter must stay within [lo, hi].
	lo, hi := [2]int{}, [2]int{}
	if vBool() {
		for w := 0; w < 2; w++ {
			l, c, h := vU8(), vU8(), vU8()
			vAssume(l <= c && c <= h && h <= 6)
			lo[w], hi[w] = int(l), int(h)
			counter.counters[vKeyHex(keys[w])] = uint(c)
		}
	}
	expiry := uint64(vU32()) + 1000
	for i := 0; i < k; i++ {
		wi := 0
		if vBool() {
			wi = 1
		}
		o := int(vU8())
		vAssume(o <= oInvalid)
		r := &vround{outcome: o, variant: vBool(), claimErr: vBool()}
		r.inactive = []group.MemberIndex{group.MemberIndex(vU8())}
		if vBool() {
			r.inactive = append(r.inactive, group.MemberIndex(vU8()))
		}
		proposal := &HeartbeatProposal{Message: [16]byte{0xff, 0xff, 0xff, 0xff, 0xff, 0xff, 0xff, 0xff, byte(i)}}
		waitFn := func(ctx context.Context, b uint64) error { r.waits = append(r.waits, b); return nil }
		r.claimChecked = func(inactive []group.MemberIndex, failed bool, session *big.Int) {
			vReach("claim")
			vAssert(o == oLow, "inactivity claimed on a heartbeat that was not a completed low-activity signing")
			vAssert(hi[wi]+1 >= heartbeatConsecutiveFailureThreshold, "inactivity claimed before three consecutive low-activity heartbeats of this wallet")
			vAssert(failed, "claim must be marked as a heartbeat failure")
			vAssert(len(inactive) == len(r.inactive), "claim must name exactly the members that did not announce readiness")
			for j := range inactive {
				vAssert(inactive[j] == r.inactive[j], "claim must name exactly the members that did not announce readiness")
			}
			vAssert(r.signedMsg != nil && session.Cmp(r.signedMsg) == 0, "claim session must be the signed heartbeat message")
		}
		ha := newHeartbeatAction(log.Logger("verif"), r, wallet{publicKey: keys[wi]}, r, proposal, counter, r, 500, expiry, waitFn)
		err := ha.execute()
		vObserve("outcome", o)
		vObserve("claims", r.claims)
		vObserve("err", err != nil)
		vQuiesce()
		// ghost update and per-round expectations
		switch o {
		case oSuccess:
			lo[wi], hi[wi] = 0, 0
			vAssert(r.claims == 0 && err == nil, "a successful heartbeat must not claim")
		case oLow, oLowNoInactive:
			lo[wi]++
			hi[wi]++
			if o == oLow {
				if lo[wi] >= heartbeatConsecutiveFailureThreshold {
					vAssert(r.claims == 1, "no claim although this is at least the third consecutive low-activity heartbeat")
				}
				if hi[wi] < heartbeatConsecutiveFailureThreshold {
					vAssert(r.claims == 0, "claim before three consecutive low-activity heartbeats")
				}
				vAssert((err != nil) == (r.claims == 1 && r.claimErr), "error must reflect the claim submission only")
			} else {
				vAssert(r.claims == 0, "no claim without a determined set of inactive members")
				if lo[wi] >= heartbeatConsecutiveFailureThreshold {
					vAssert(err != nil, "an undetermined inactive set must abort a due claim with an error")
				}
			}
		default:
			lo[wi] = 0
			vAssert(r.claims == 0, "no claim on signing error, while unstaking, or for an invalid proposal")
			vAssert((err != nil) == (o != oUnstaking), "unexpected error state")
			if o == oUnstaking || o == oStakeQueryErr || o == oInvalid {
				vAssert(r.signedMsg == nil, "nothing may be signed while unstaking or for an invalid proposal")
			}
		}
		if r.signedMsg != nil {
			vAssert(r.signStart == 500, "signing must start at the action's start block")
			want := bitcoin.ComputeHash(proposal.Message[:])
			vAssert(r.signedMsg.Cmp(new(big.Int).SetBytes(want[:])) == 0, "signed message is not the hash of the proposal message")
		}
		for _, b := range r.waits {
			vAssert(b == expiry-heartbeatInactivityClaimValidityBlocks || (r.claims == 1 && b == expiry-heartbeatTimeoutSafetyMarginBlocks), "deadline outside the documented heartbeat windows")
		}
		cnt := int(counter.get(vKeyHex(keys[wi])))
		vAssert(cnt >= lo[wi] && cnt <= hi[wi], "failure counter out of step with the wallet's run of low-activity heartbeats")
		cntOther := int(counter.get(vKeyHex(keys[1-wi])))
		vAssert(cntOther >= lo[1-wi] && cntOther <= hi[1-wi], "a heartbeat of one wallet changed another wallet's failure count")
	}
	vReach("done")
}

func vKeyHex(k *ecdsa.PublicKey) string {
	b, _ := marshalPublicKey(k)
	const hexd = "0123456789abcdef"
	out := make([]byte, 0, 2*len(b))
	for _, x := range b {
		out = append(out, hexd[x>>4], hexd[x&15])
	}
	return string(out)
}
