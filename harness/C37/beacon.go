package event

import (
	"math/big"
	"sync"
)

const vWeek = int64(7 * 24 * 3600 * 1000000000)

func VerifC37_BeaconConcurrentDKGStarted() {
	vClockMax(vWeek - 1)
	d := NewDeduplicator(nil)
	seed := new(big.Int).SetBytes([]byte{vU8(), vU8()})
	n := 2
	if vThorough() {
		n = 3
	}
	res := make([]bool, n)
	var wg sync.WaitGroup
	for i := 0; i < n; i++ {
		i := i
		wg.Add(1)
		go func() {
			res[i] = d.NotifyDKGStarted(seed)
			wg.Done()
		}()
	}
	wg.Wait()
	vReach("joined")
	handled := 0
	for _, r := range res {
		if r {
			handled++
		}
	}
	vAssert(handled <= 1, "one event delivered by parallel handlers was handled more than once")
	vAssert(handled >= 1, "an event was not handled at all")
}

func VerifC37_BeaconDistinctSeeds() {
	vClockMax(vWeek - 1)
	d := NewDeduplicator(nil)
	s1 := new(big.Int).SetBytes([]byte{vU8(), vU8(), vU8()})
	s2 := new(big.Int).SetBytes([]byte{vU8(), vU8(), vU8()})
	vAssume(s1.Cmp(s2) != 0)
	vAssert(d.NotifyDKGStarted(s1), "first delivery of an event must be handled")
	vAssert(d.NotifyDKGStarted(s2), "a different DKG seed was suppressed as a duplicate")
	vAssert(!d.NotifyDKGStarted(s1), "a repeated event was handled twice")
	vReach("distinct")
}
