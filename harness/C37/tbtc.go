package tbtc

import (
	"math/big"
	"sync"
)

const vWeek = int64(7 * 24 * 3600 * 1000000000)

// The same event delivered by n parallel handlers within the caching period:
// exactly one delivery must be handled, under every interleaving.
func vConcurrent(n int, notify func() bool) {
	vClockMax(vWeek - 1)
	res := make([]bool, n)
	var wg sync.WaitGroup
	for i := 0; i < n; i++ {
		i := i
		wg.Add(1)
		go func() {
			res[i] = notify()
			wg.Done()
		}()
	}
	wg.Wait()
	vReach("joined")
	handled := 0
	for _, r := range res {
		if r {
			handled++
		}
	}
	vAssert(handled <= 1, "one event delivered by parallel handlers was handled more than once")
	vAssert(handled >= 1, "an event was not handled at all")
}

func vCallers() int {
	if vThorough() {
		return 3
	}
	return 2
}

func VerifC37_ConcurrentDKGStarted() {
	d := newDeduplicator()
	seed := new(big.Int).SetBytes([]byte{vU8(), vU8()})
	vConcurrent(vCallers(), func() bool { return d.notifyDKGStarted(seed) })
}

func VerifC37_ConcurrentDKGResult() {
	d := newDeduplicator()
	seed := big.NewInt(0x1234)
	var h DKGChainResultHash
	h[0], h[31] = vU8(), vU8()
	block := uint64(vU8())
	vConcurrent(vCallers(), func() bool { return d.notifyDKGResultSubmitted(seed, h, block) })
}

func VerifC37_ConcurrentWalletClosed() {
	d := newDeduplicator()
	var id [32]byte
	id[0], id[31] = vU8(), vU8()
	vConcurrent(vCallers(), func() bool { return d.notifyWalletClosed(id) })
}

// Two different events must never be mistaken for one another: after event A
// was handled, a different event B delivered within the caching period is
// handled as well (and A again is not).
func VerifC37_DistinctResults() {
	vClockMax(vWeek - 1)
	d := newDeduplicator()
	s1 := new(big.Int).SetBytes([]byte{vU8(), vU8()})
	s2 := new(big.Int).SetBytes([]byte{vU8(), vU8()})
	var h1, h2 DKGChainResultHash
	for _, i := range []int{0, 1, 30, 31} { // leading and trailing bytes (hex digits next to the seed and the block text)
		h1[i], h2[i] = vU8(), vU8()
	}
	b1, b2 := uint64(vU16()), uint64(vU16())
	different := s1.Cmp(s2) != 0 || h1 != h2 || b1 != b2
	vAssume(different)
	vAssert(d.notifyDKGResultSubmitted(s1, h1, b1), "first delivery of an event must be handled")
	vReach("first-handled")
	vAssert(d.notifyDKGResultSubmitted(s2, h2, b2), "a different DKG result event was suppressed as a duplicate")
	vAssert(!d.notifyDKGResultSubmitted(s1, h1, b1), "a repeated event was handled twice")
}

func VerifC37_DistinctSeedsAndWallets() {
	vClockMax(vWeek - 1)
	d := newDeduplicator()
	s1 := new(big.Int).SetBytes([]byte{vU8(), vU8(), vU8()})
	s2 := new(big.Int).SetBytes([]byte{vU8(), vU8(), vU8()})
	vAssume(s1.Cmp(s2) != 0)
	vAssert(d.notifyDKGStarted(s1), "first delivery of an event must be handled")
	vAssert(d.notifyDKGStarted(s2), "a different DKG seed was suppressed as a duplicate")
	vAssert(!d.notifyDKGStarted(s1) && !d.notifyDKGStarted(s2), "a repeated event was handled twice")
	var w1, w2 [32]byte
	for _, i := range []int{0, 15, 31} {
		w1[i], w2[i] = vU8(), vU8()
	}
	vAssume(w1 != w2)
	vAssert(d.notifyWalletClosed(w1) && d.notifyWalletClosed(w2), "a different wallet-closed event was suppressed as a duplicate")
	vAssert(!d.notifyWalletClosed(w1), "a repeated event was handled twice")
	vReach("distinct")
}
