package dkg

// VerifTag exposes the harness-chosen group tag carried in the private key
// share of a signer built by the C38 harness (overlay only; never written to
// the repository).
func VerifTag(ts *ThresholdSigner) int { return int(ts.groupPrivateKeyShare.Int64()) }
