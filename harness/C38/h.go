package tbtc

import (
	"crypto/ecdsa"
	"fmt"
	"math/big"

	"github.com/keep-network/keep-common/pkg/persistence"
	"github.com/keep-network/keep-core/pkg/protocol/group"
)

var vErr = fmt.Errorf("verif: storage failure")

// --- engine-side replacements for curve / protobuf heavy helpers (their own
// correctness is C19's subject): a token codec that is injective on
// (wallet, member index)
func vWalletKeyOf(i int) *ecdsa.PublicKey { return &ecdsa.PublicKey{X: big.NewInt(int64(i + 1)), Y: big.NewInt(1)} }
func vStorageKey(k *ecdsa.PublicKey) string { return "wallet" + k.X.String() }
func vPublicKeyHash(k *ecdsa.PublicKey) [20]byte { return [20]byte{byte(k.X.Int64())} }
func vWalletID(k *ecdsa.PublicKey) ([32]byte, error) { return [32]byte{0xee, byte(k.X.Int64())}, nil }
func vSignerMarshal(s *signer) ([]byte, error) {
	return []byte{byte(s.wallet.publicKey.X.Int64()), byte(s.signingGroupMemberIndex)}, nil
}
func vSignerUnmarshal(s *signer, b []byte) error {
	if len(b) != 2 {
		return vErr
	}
	s.wallet = wallet{publicKey: vWalletKeyOf(int(b[0]) - 1)}
	s.signingGroupMemberIndex = group.MemberIndex(b[1])
	return nil
}

// --- storage that survives restarts, with failure injection
type vfile struct {
	dir, name string
	data      []byte
}

func (f *vfile) Name() string             { return f.name }
func (f *vfile) Directory() string        { return f.dir }
func (f *vfile) Content() ([]byte, error) { return f.data, nil }

type vdisk struct {
	persistence.ProtectedHandle
	files []*vfile
}

func (d *vdisk) Save(data []byte, dir, name string) error {
	if vBool() {
		return vErr
	}
	for _, f := range d.files {
		if f.dir == dir && f.name == name {
			f.data = append([]byte{}, data...)
			return nil
		}
	}
	d.files = append(d.files, &vfile{dir: dir, name: name, data: append([]byte{}, data...)})
	return nil
}

func (d *vdisk) Archive(dir string) error {
	if vBool() {
		return vErr
	}
	var keep []*vfile
	for _, f := range d.files {
		if f.dir != dir {
			keep = append(keep, f)
		}
	}
	d.files = keep
	return nil
}

func (d *vdisk) ReadAll() (<-chan persistence.DataDescriptor, <-chan error) {
	dc := make(chan persistence.DataDescriptor, len(d.files))
	ec := make(chan error)
	for _, f := range d.files {
		dc <- f
	}
	close(dc)
	close(ec)
	return dc, ec
}

// vView: what a registry knows, as a bitmask of (wallet, member index) pairs
// plus whether the three lookups agree.
func vView(r *walletRegistry) int {
	mask := 0
	for w := 0; w < 2; w++ {
		key := vWalletKeyOf(w)
		signers := r.getSigners(key)
		for _, s := range signers {
			vAssert(s.wallet.publicKey.X.Cmp(key.X) == 0, "a signer is filed under another wallet")
			mask |= 1 << (uint(w)*4 + uint(s.signingGroupMemberIndex))
		}
		_, byHash := r.getWalletByPublicKeyHash(vPublicKeyHash(key))
		_, byID := r.getWalletByID([32]byte{0xee, byte(w + 1)})
		vAssert(byHash == (len(signers) > 0) && byID == (len(signers) > 0), "lookups by public key, public key hash and wallet ID disagree")
	}
	return mask
}

func VerifC38_WalletRegistry() {
	k := 3
	if vThorough() {
		k = 5
	}
	disk := &vdisk{}
	reg, err := newWalletRegistry(disk, vWalletID)
	vAssert(err == nil, "registry construction failed")
	registered := 0 // (wallet, index) pairs ever submitted: a seat is registered at most once
	for step := 0; step < k; step++ {
		op := vU8()
		vAssume(op <= 2)
		switch op {
		case 0:
			w, i := int(vU8()), int(vU8())
			vAssume(w <= 1 && i >= 1 && i <= 2)
			bit := 1 << (uint(w)*4 + uint(i))
			vAssume(registered&bit == 0)
			registered |= bit
			reg.registerSigner(&signer{wallet: wallet{publicKey: vWalletKeyOf(w)}, signingGroupMemberIndex: group.MemberIndex(i)})
		case 1:
			w := int(vU8())
			vAssume(w <= 1)
			if reg.archiveWallet(vPublicKeyHash(vWalletKeyOf(w))) == nil {
				vReach("archived")
			}
		case 2:
			vReach("restart")
			reg, err = newWalletRegistry(disk, vWalletID)
			vAssert(err == nil, "registry construction failed")
		}
		// after every operation (also a failed one): a node restarted now — i.e.
		// also one that crashed right after this step's storage call — knows
		// exactly what the running node knows
		fresh, ferr := newWalletRegistry(disk, vWalletID)
		vAssert(ferr == nil, "registry construction failed")
		vAssert(vView(reg) == vView(fresh), "the running registry and a registry rebuilt from storage differ")
	}
	vReach("done")
}
