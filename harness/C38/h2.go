package tbtc

import (
	"crypto/ecdsa"
	"crypto/elliptic"
	"math/big"
)

// keys handed to the registry are curve points by construction; the curve
// membership test inside elliptic.Marshal is field arithmetic that has no
// bearing on how coordinates become a directory name
// the curve only contributes its bit size to the encoding
var vCurve = &elliptic.CurveParams{Name: "secp256k1", BitSize: 256}

func vNoCurveCheck(curve elliptic.Curve, x, y *big.Int) {}

// an arbitrary 256-bit coordinate
func vCoord() *big.Int {
	var b [32]byte
	for i := range b {
		b[i] = vU8()
	}
	return new(big.Int).SetBytes(b[:])
}

// VerifC38_StorageKey: the real getWalletStorageKey is a one-to-one function
// of the public key — two wallets share a storage directory and cache entry
// exactly when they are the same key — and the name has the fixed length that
// keeps it usable as a directory name.
func VerifC38_StorageKey() {
	x1, y1, x2, y2 := vCoord(), vCoord(), vCoord(), vCoord()
	k1 := &ecdsa.PublicKey{Curve: vCurve, X: x1, Y: y1}
	k2 := &ecdsa.PublicKey{Curve: vCurve, X: x2, Y: y2}
	s1, s2 := getWalletStorageKey(k1), getWalletStorageKey(k2)
	vReach("keys")
	same := x1.Cmp(x2) == 0 && y1.Cmp(y2) == 0
	vAssert(len(s1) == 128 && len(s2) == 128, "storage key does not have the fixed 128-character length")
	vAssert((s1 == s2) == same, "two different wallet public keys share a storage key (or one key has two)")
}
