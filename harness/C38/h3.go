package registry

import (
	"fmt"
	"math/big"

	"github.com/ipfs/go-log"
	"github.com/keep-network/keep-common/pkg/persistence"
	beaconchain "github.com/keep-network/keep-core/pkg/beacon/chain"
	"github.com/keep-network/keep-core/pkg/beacon/dkg"
	"github.com/keep-network/keep-core/pkg/protocol/group"
)

var vErr = fmt.Errorf("verif: storage failure")

// --- token codec, injective on (group, member index); the real codecs are
// C19's subject
func vSignerOf(w, i int) *dkg.ThresholdSigner {
	return dkg.NewThresholdSigner(group.MemberIndex(i), nil, big.NewInt(int64(w+1)), nil, nil)
}
func vGroupKey(ts *dkg.ThresholdSigner) []byte           { return []byte{0xaa, byte(dkg.VerifTag(ts))} }
func vGroupKeyCompressed(ts *dkg.ThresholdSigner) []byte { return []byte{0xcc, byte(dkg.VerifTag(ts))} }
func vMembershipMarshal(m *Membership) ([]byte, error) {
	return []byte{byte(dkg.VerifTag(m.Signer)), byte(m.Signer.MemberID())}, nil
}
func vMembershipUnmarshal(m *Membership, b []byte) error {
	if len(b) != 2 {
		return vErr
	}
	m.Signer = vSignerOf(int(b[0])-1, int(b[1]))
	m.ChannelName = "ch"
	return nil
}

type vLog struct{ log.StandardLogger }

func (vLog) Errorf(string, ...interface{}) {}
func (vLog) Infof(string, ...interface{})  {}
func (vLog) Warnf(string, ...interface{})  {}

// chain: staleness answers and errors are arbitrary
type vChain struct {
	beaconchain.GroupRegistrationInterface
}

func (vChain) IsStaleGroup([]byte) (bool, error) {
	if vBool() {
		return false, vErr
	}
	return vBool(), nil
}

// --- storage that survives restarts, with failure injection
type vfile struct {
	dir, name string
	data      []byte
}

func (f *vfile) Name() string             { return f.name }
func (f *vfile) Directory() string        { return f.dir }
func (f *vfile) Content() ([]byte, error) { return f.data, nil }

type vdisk struct {
	persistence.ProtectedHandle
	files []*vfile
}

func (d *vdisk) Save(data []byte, dir, name string) error {
	if vBool() {
		return vErr
	}
	for _, f := range d.files {
		if f.dir == dir && f.name == name {
			f.data = append([]byte{}, data...)
			return nil
		}
	}
	d.files = append(d.files, &vfile{dir: dir, name: name, data: append([]byte{}, data...)})
	return nil
}

func (d *vdisk) Archive(dir string) error {
	if vBool() {
		return vErr
	}
	var keep []*vfile
	for _, f := range d.files {
		if f.dir != dir {
			keep = append(keep, f)
		}
	}
	d.files = keep
	return nil
}

func (d *vdisk) ReadAll() (<-chan persistence.DataDescriptor, <-chan error) {
	dc := make(chan persistence.DataDescriptor, len(d.files))
	ec := make(chan error)
	for _, f := range d.files {
		dc <- f
	}
	close(dc)
	close(ec)
	return dc, ec
}

// vView: what a registry knows, as a bitmask of (group, member index) pairs
func vView(g *Groups) int {
	mask := 0
	for w := 0; w < 2; w++ {
		for _, m := range g.GetGroup([]byte{0xaa, byte(w + 1)}) {
			vAssert(dkg.VerifTag(m.Signer) == w+1, "a membership is filed under another group's key")
			bit := 1 << (uint(w)*4 + uint(m.Signer.MemberID()))
			vAssert(mask&bit == 0, "a membership is held twice")
			mask |= bit
		}
	}
	return mask
}

func vLoad(disk *vdisk) *Groups {
	g := NewGroupRegistry(vLog{}, vChain{}, disk)
	g.LoadExistingGroups()
	return g
}

func VerifC38_GroupRegistry() {
	k := 3 // 5 operations did not finish within 25 min: not registered
	disk := &vdisk{}
	reg := vLoad(disk)
	registered := 0 // a (group, index) seat is registered at most once
	expect := 0     // seats successfully registered and not archived
	for step := 0; step < k; step++ {
		op := vU8()
		vAssume(op <= 2)
		switch op {
		case 0:
			w, i := int(vU8()), int(vU8())
			vAssume(w <= 1 && i >= 1 && i <= 2)
			bit := 1 << (uint(w)*4 + uint(i))
			vAssume(registered&bit == 0)
			registered |= bit
			if reg.RegisterGroup(vSignerOf(w, i), "ch") == nil {
				expect |= bit
			}
		case 1:
			// latest group: one of the two, or an unrelated key
			l := vU8()
			vAssume(l <= 2)
			before := vView(reg)
			reg.UnregisterStaleGroups([]byte{0xaa, byte(l + 1)})
			after := vView(reg)
			vAssert(after&^before == 0, "unregistering stale groups added memberships")
			if l <= 1 {
				keep := 0xf << (uint(l) * 4)
				vAssert(after&keep == before&keep, "the latest group was unregistered")
			}
			for w := uint(0); w < 2; w++ {
				gm := 0xf << (w * 4)
				vAssert(after&gm == 0 || after&gm == before&gm, "a group was partially unregistered")
			}
			if after != before {
				vReach("archived")
			}
			expect &= after
		case 2:
			vReach("restart")
			reg = vLoad(disk)
		}
		// after every operation (also a failed one): a node restarted now — i.e.
		// also one that crashed right after this step's storage call — knows
		// exactly what the running node knows, which is what was persisted
		// and not archived
		fresh := vLoad(disk)
		v := vView(reg)
		vAssert(v == vView(fresh), "the running group registry and one rebuilt from storage differ")
		vAssert(v == expect, "the registry does not hold exactly the persisted, non-archived memberships")
	}
	vReach("done")
}
