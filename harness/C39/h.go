package generator

import (
	"context"
	"fmt"

	"github.com/ipfs/go-log/v2"
)

type vParam struct{ id int }

var vErr = fmt.Errorf("verif: storage failure")

// vstore is the persistent storage: survives restarts, may fail.
type vstore struct {
	items   []*Persisted[vParam]
	nextID  int
	deleted []int // param ids deleted
}

func (s *vstore) Save(p *vParam) (*Persisted[vParam], error) {
	if vBool() {
		return nil, vErr
	}
	s.nextID++
	it := &Persisted[vParam]{Data: *p, ID: fmt.Sprintf("f%d", s.nextID)}
	s.items = append(s.items, it)
	return it, nil
}

func (s *vstore) Delete(p *Persisted[vParam]) error {
	if vBool() {
		return vErr
	}
	for i, it := range s.items {
		if it.ID == p.ID {
			s.items = append(s.items[:i:i], s.items[i+1:]...)
			s.deleted = append(s.deleted, p.Data.id)
			return nil
		}
	}
	return nil
}

func (s *vstore) ReadAll() ([]*Persisted[vParam], error) {
	out := make([]*Persisted[vParam], len(s.items))
	copy(out, s.items)
	return out, nil
}

func (s *vstore) has(id int) bool {
	for _, it := range s.items {
		if it.Data.id == id {
			return true
		}
	}
	return false
}

// Histories of {worker iteration, GetNow, restart} with storage failures.
func VerifC39_Histories() {
	k, size := 4, 2
	if vThorough() {
		k, size = 6, 2
	}
	logger := log.Logger("verif")
	store := &vstore{}
	generated := 0
	var served []int
	gen := func(ctx context.Context) *vParam {
		if vBool() {
			return nil // generation gave up
		}
		generated++
		return &vParam{id: generated}
	}
	newPool := func() (*ParameterPool[vParam], *Scheduler) {
		s := &Scheduler{state: stopped} // workers are registered but driven by the harness
		return NewParameterPool[vParam](logger, s, store, size, gen, 0), s
	}
	pool, sched := newPool()
	for step := 0; step < k; step++ {
		op := vU8()
		vAssume(op <= 2)
		switch op {
		case 0: // one iteration of the generation worker
			ctx, cancel := context.WithCancel(context.Background())
			if pool.ParametersCount() >= size {
				cancel() // pool full: the worker can only leave through its stop signal
			}
			sched.workers[0](ctx)
			cancel()
		case 1:
			p, err := pool.GetNow()
			if err == nil {
				vReach("served")
				vAssert(p != nil, "GetNow returned neither a parameter nor an error")
				vAssert(p.id >= 1 && p.id <= generated, "GetNow served a parameter that was never generated")
				for _, s := range served {
					vAssert(s != p.id, "the same parameter was handed out twice")
				}
				vAssert(!store.has(p.id), "a handed-out parameter is still in storage (would be served again after a restart)")
				served = append(served, p.id)
			}
		case 2: // restart: a new pool over the same storage
			vReach("restart")
			pool, sched = newPool()
		}
		vAssert(pool.ParametersCount() <= size, "pool holds more than its configured size")
	}
	vReach("done")
}
