package ethereum

import (
	"crypto/ecdsa"
	"math/big"

	"github.com/keep-network/keep-core/pkg/chain"
	"github.com/keep-network/keep-core/pkg/protocol/group"
	"github.com/keep-network/keep-core/pkg/tbtc"
)

var vHashedIDs chain.OperatorIDs

// replaces computeOperatorsIDsHash (ABI packing + Keccak are outside): records what is hashed
func vOperatorsIDsHash(ids chain.OperatorIDs) ([32]byte, error) {
	vHashedIDs = append(chain.OperatorIDs{}, ids...)
	return [32]byte{1}, nil
}

func VerifC40_AssembleDKGResult() {
	n := 4
	if vThorough() {
		n = 6
	}
	threshold := n/2 + 1
	ids := make(chain.OperatorIDs, n)
	for i := range ids {
		ids[i] = chain.OperatorID(100*(i+1)) + chain.OperatorID(vU8())
	}
	var operating, misbehaved []group.MemberIndex
	isOperating := make([]bool, n+1)
	for m := n; m >= 1; m-- { // handed over in descending order: the assembly has to sort
		if vBool() {
			isOperating[m] = true
			operating = append(operating, group.MemberIndex(m))
		} else {
			misbehaved = append(misbehaved, group.MemberIndex(m))
		}
	}
	vAssume(len(operating) >= threshold)
	sigs := map[group.MemberIndex][]byte{}
	supporters := 0
	badSize := false
	for m := 1; m <= n; m++ { // inserted ascending, iterated in reverse below: the conversion has to sort
		if isOperating[m] && vBool() {
			s := make([]byte, 65)
			s[0], s[64] = byte(m), vU8()
			if vBool() && !badSize {
				s = s[:64] // a malformed signature
				badSize = true
			}
			sigs[group.MemberIndex(m)] = s
			supporters++
		}
	}
	vAssume(supporters >= threshold)
	// the public key: coordinates with leading zero bytes are included
	xb, yb := make([]byte, 32), make([]byte, 32)
	xb[0], xb[1], xb[31] = vU8(), vU8(), vU8()
	yb[0], yb[31] = vU8(), vU8()
	key := &ecdsa.PublicKey{X: new(big.Int).SetBytes(xb), Y: new(big.Int).SetBytes(yb)}
	vMapOrder("reverse")
	res, err := (&TbtcChain{}).AssembleDKGResult(1, key, operating, misbehaved, sigs, &tbtc.GroupSelectionResult{OperatorsIDs: ids})
	vMapOrder("insertion")
	if badSize {
		vReach("bad-signature")
		vAssert(err != nil, "a signature of the wrong size must be refused")
		return
	}
	vAssert(err == nil, "assembly failed for a result the client would submit")
	vReach("assembled")
	// --- EcdsaDkgValidator.validateFields, transcribed
	vAssert(len(res.GroupPublicKey) == 64, "group public key must be 64 bytes")
	for i := 0; i < 32; i++ {
		vAssert(res.GroupPublicKey[i] == xb[i] && res.GroupPublicKey[32+i] == yb[i], "group public key is not X||Y, each left-padded to 32 bytes")
	}
	for i, m := range res.MisbehavedMembersIndexes {
		vAssert(m >= 1 && int(m) <= n && (i == 0 || res.MisbehavedMembersIndexes[i-1] < m), "misbehaved indices must be strictly ascending within [1, group size]")
	}
	vAssert(len(res.MisbehavedMembersIndexes) == len(misbehaved), "misbehaved members were lost or invented")
	cnt := len(res.SigningMembersIndexes)
	vAssert(len(res.Signatures) == 65*cnt && cnt == supporters && cnt >= threshold && cnt <= n, "signature bytes must be 65 per signing member, at least the threshold and at most the group size")
	for i, m := range res.SigningMembersIndexes {
		vAssert(m >= 1 && int(m) <= n && (i == 0 || res.SigningMembersIndexes[i-1] < m), "signing member indices must be strictly ascending within [1, group size]")
		vAssert(res.Signatures[65*i] == byte(m) && res.Signatures[65*i+64] == sigs[m][64], "signatures must be concatenated in ascending member order, each under its own index")
	}
	vAssert(len(res.Members) == n, "members list changed")
	for i := range ids {
		vAssert(res.Members[i] == ids[i], "members list must be the selection result unchanged")
	}
	// members hash input: ids of the operating members in ascending member order
	j := 0
	for m := 1; m <= n; m++ {
		if isOperating[m] {
			vAssert(j < len(vHashedIDs) && vHashedIDs[j] == ids[m-1], "members hash must cover the operating members' ids in ascending member order")
			j++
		}
	}
	vAssert(j == len(vHashedIDs), "members hash covers members that are not operating")
}
