package sortition

import (
	"fmt"

	"github.com/ipfs/go-log"
	"github.com/keep-network/keep-core/pkg/chain"
)

var vErr = fmt.Errorf("verif: chain query failed")

// vstubChain answers every query with the values drawn for the current round
// and records the transactions requested.
type vstubChain struct {
	Chain
	inPool, upToDate, locked, eligible, canRestore, chaosnet, beta               bool
	eInPool, eUpToDate, eLocked, eEligible, eCanRestore, eChaosnet, eBeta        bool
	eJoin, eUpdate, eRestore                                                     bool
	joins, updates, restores                                                     int
	queriesAfterTx                                                               int
}

func (c *vstubChain) draw() {
	c.inPool, c.upToDate, c.locked, c.eligible, c.canRestore, c.chaosnet, c.beta = vBool(), vBool(), vBool(), vBool(), vBool(), vBool(), vBool()
	c.eInPool, c.eUpToDate, c.eLocked, c.eEligible, c.eCanRestore, c.eChaosnet, c.eBeta = vBool(), vBool(), vBool(), vBool(), vBool(), vBool(), vBool()
	c.eJoin, c.eUpdate, c.eRestore = vBool(), vBool(), vBool()
	c.joins, c.updates, c.restores = 0, 0, 0
}

func vE(b bool) error {
	if b {
		return vErr
	}
	return nil
}

func (c *vstubChain) OperatorToStakingProvider() (chain.Address, bool, error) {
	return "0xaa", true, nil
}
func (c *vstubChain) IsOperatorInPool() (bool, error)   { return c.inPool, vE(c.eInPool) }
func (c *vstubChain) IsOperatorUpToDate() (bool, error) { return c.upToDate, vE(c.eUpToDate) }
func (c *vstubChain) IsPoolLocked() (bool, error)       { return c.locked, vE(c.eLocked) }
func (c *vstubChain) IsEligibleForRewards() (bool, error) {
	return c.eligible, vE(c.eEligible)
}
func (c *vstubChain) CanRestoreRewardEligibility() (bool, error) {
	return c.canRestore, vE(c.eCanRestore)
}
func (c *vstubChain) IsChaosnetActive() (bool, error) { return c.chaosnet, vE(c.eChaosnet) }
func (c *vstubChain) IsBetaOperator() (bool, error)   { return c.beta, vE(c.eBeta) }
func (c *vstubChain) JoinSortitionPool() error        { c.joins++; return vE(c.eJoin) }
func (c *vstubChain) UpdateOperatorStatus() error     { c.updates++; return vE(c.eUpdate) }
func (c *vstubChain) RestoreRewardEligibility() error { c.restores++; return vE(c.eRestore) }

type vstubPolicy struct{ ok bool }

func (p *vstubPolicy) ShouldJoin() bool { return p.ok }

// vCheckRound asserts that the transactions requested in one status check
// are exactly those the answers of that round permit.
func vCheckRound(c *vstubChain, extra bool, what string) {
	vObserve("joins", c.joins)
	vObserve("updates", c.updates)
	vObserve("restores", c.restores)
	vAssert(c.joins <= 1 && c.updates <= 1 && c.restores <= 1, what+": a transaction was requested more than once in one status check")
	// only-when direction (holds whatever queries failed)
	if c.joins > 0 {
		vReach("join")
		vAssert(!c.inPool && !c.upToDate && !c.locked, what+": join requested although operator in pool, up to date, or pool locked")
		vAssert(!c.eInPool && !c.eUpToDate && !c.eLocked, what+": join requested although a status query failed")
		vAssert(extra, what+": join requested although the conjunction policy's other member refuses")
		vAssert(!c.eChaosnet && (!c.chaosnet || (!c.eBeta && c.beta)), what+": join requested although the beta-operator policy refuses or could not be evaluated")
	}
	if c.updates > 0 {
		vReach("update")
		vAssert(c.inPool && !c.upToDate && !c.locked, what+": status update requested although operator not in pool, up to date, or pool locked")
		vAssert(!c.eInPool && !c.eUpToDate && !c.eLocked, what+": status update requested although a status query failed")
	}
	if c.restores > 0 {
		vReach("restore")
		vAssert(c.inPool && !c.eInPool, what+": restore requested for an operator not known to be in the pool")
		vAssert(!c.eligible && !c.eEligible, what+": restore requested although operator eligible / eligibility unknown")
		vAssert(c.canRestore && !c.eCanRestore, what+": restore requested although the chain does not allow restoring")
	}
	vAssert(!(c.joins > 0 && c.updates > 0), what+": join and update requested together")
	// when-direction: with every query answered, a permitted change is requested
	if !c.eInPool && !c.eUpToDate && !c.eLocked && !c.eEligible && !c.eCanRestore && !c.eChaosnet && !c.eBeta {
		vReach("all-queries-ok")
		policy := extra && (!c.chaosnet || c.beta)
		vAssert((c.joins == 1) == (!c.inPool && !c.upToDate && !c.locked && policy), what+": permitted join not requested")
		vAssert((c.updates == 1) == (c.inPool && !c.upToDate && !c.locked), what+": permitted status update not requested")
		vAssert((c.restores == 1) == (c.inPool && !c.eligible && c.canRestore), what+": permitted eligibility restore not requested")
	}
}

// Every combination of answers and query errors, k consecutive status checks.
func VerifC42_StatusChecks() {
	k := 1
	if vThorough() {
		k = 2
	}
	c := &vstubChain{}
	logger := log.Logger("verif")
	for r := 0; r < k; r++ {
		c.draw()
		extra := vBool()
		policy := NewConjunctionPolicy(NewBetaOperatorPolicy(c, logger), &vstubPolicy{extra})
		err := checkOperatorStatus(logger, c, policy)
		vObserve("err", err != nil)
		vAssert((err != nil) == (c.eInPool || (!c.eInPool && c.eUpToDate) || (!c.eInPool && !c.eUpToDate && !c.upToDate && c.eLocked)), "status check error must reflect exactly a failed status query")
		vCheckRound(c, extra, "round")
	}
	vReach("done")
}

// Policies: truth tables including errors, and conjunction order.
func VerifC42_Policies() {
	c := &vstubChain{}
	c.draw()
	logger := log.Logger("verif")
	beta := NewBetaOperatorPolicy(c, logger).ShouldJoin()
	vAssert(beta == (!c.eChaosnet && (!c.chaosnet || (!c.eBeta && c.beta))), "beta operator policy truth table")
	a, b, d := vBool(), vBool(), vBool()
	conj := NewConjunctionPolicy(&vstubPolicy{a}, &vstubPolicy{b}, &vstubPolicy{d}).ShouldJoin()
	vAssert(conj == (a && b && d), "conjunction policy must require every member policy")
	vAssert(NewConjunctionPolicy().ShouldJoin(), "empty conjunction allows joining")
	vAssert(UnconditionalJoinPolicy.ShouldJoin(), "unconditional policy allows joining")
	vReach("policies")
}
