package btcdiff

import (
	"context"
	"fmt"

	"github.com/keep-network/keep-core/pkg/bitcoin"
	"github.com/keep-network/keep-core/pkg/chain"
)

var vErr = fmt.Errorf("verif: injected failure")

type vstubSigning struct{ chain.Signing }

func (s *vstubSigning) Address() chain.Address { return "0xmaintainer" }

// vworld is the environment: Bitcoin chain tip, relay epoch, proof length,
// authorisation answers and failures are drawn per call; every header
// submission is checked at the moment it is made against the answers the
// maintainer has seen.
type vworld struct {
	bitcoin.Chain
	disableProxy bool
	ready, auth, authRefund    bool
	eligibilityVerified        bool
	eligibilityOK              bool
	tip                        uint
	tipCalls, maxTipCalls      int
	epoch                      uint64
	epochCalls, maxEpochCalls  int
	proofLen                   uint64
	submissions                int
	lastSubmittedEpoch         uint64
	awaitingEpoch              uint64 // non-zero: a submission for this epoch succeeded and the relay has not been seen to reach it
	failedHeader               bool
}

type vstubDiffChain struct {
	Chain
	w *vworld
}

func (w *vworld) GetLatestBlockHeight() (uint, error) {
	w.tipCalls++
	if w.tipCalls > w.maxTipCalls {
		return 0, vErr // ends the otherwise endless loop
	}
	t := uint(vU32())
	vAssume(t >= w.tip) // chain grows
	w.tip = t
	if vBool() {
		return 0, vErr
	}
	return t, nil
}

func (w *vworld) GetBlockHeader(h uint) (*bitcoin.BlockHeader, error) {
	if vBool() {
		w.failedHeader = true
		return nil, vErr
	}
	return &bitcoin.BlockHeader{Time: uint32(h)}, nil
}

func (c *vstubDiffChain) Ready() (bool, error) {
	c.w.ready = vBool()
	return c.w.ready, vE()
}
func vE() error {
	if vBool() {
		return vErr
	}
	return nil
}
func (c *vstubDiffChain) IsAuthorized(chain.Address) (bool, error) {
	c.w.auth = vBool()
	return c.w.auth, vE()
}
func (c *vstubDiffChain) IsAuthorizedForRefund(chain.Address) (bool, error) {
	c.w.authRefund = vBool()
	return c.w.authRefund, vE()
}
func (c *vstubDiffChain) Signing() chain.Signing { return &vstubSigning{} }

func (c *vstubDiffChain) CurrentEpoch() (uint64, error) {
	w := c.w
	w.epochCalls++
	if w.epochCalls > w.maxEpochCalls {
		return 0, vErr
	}
	e := uint64(vU16())
	vAssume(e >= w.epoch) // relay epochs only advance
	w.epoch = e
	if vBool() {
		return 0, vErr
	}
	if w.awaitingEpoch != 0 && e >= w.awaitingEpoch {
		w.awaitingEpoch = 0
	}
	return e, nil
}

func (c *vstubDiffChain) ProofLength() (uint64, error) {
	c.w.proofLen = uint64(vRange(1, 2))
	if vThorough() && vBool() {
		c.w.proofLen += 2
	}
	return c.w.proofLen, vE()
}

func (w *vworld) submit(headers []*bitcoin.BlockHeader, viaRefund bool) error {
	w.submissions++
	vReach("submission")
	vAssert(viaRefund == !w.disableProxy, "submission used the wrong entry point for the configured mode")
	vAssert(w.ready, "headers submitted although the relay reported not ready")
	if w.disableProxy {
		vAssert(w.auth, "headers submitted although the maintainer is not authorised")
	} else {
		vAssert(w.authRefund, "headers submitted although the maintainer is not authorised for refunds")
	}
	vAssert(w.awaitingEpoch == 0, "headers submitted again before the relay reached the previously proven epoch")
	e := w.epoch + 1
	vAssert(w.submissions == 1 || e > w.lastSubmittedEpoch, "an epoch was proven twice")
	l := w.proofLen
	first := e*bitcoinDifficultyEpochLength - l
	last := e*bitcoinDifficultyEpochLength + l - 1
	vAssert(uint64(len(headers)) == 2*l, "wrong number of headers submitted")
	for i, h := range headers {
		vAssert(uint64(h.Time) == first+uint64(i), "submitted headers are not the proof-length headers around the next epoch's first block, in order")
	}
	vAssert(uint64(w.tip) >= last, "headers submitted before all of them were mined")
	if vBool() {
		return vErr
	}
	w.lastSubmittedEpoch = e
	w.awaitingEpoch = e
	return nil
}

func (c *vstubDiffChain) Retarget(h []*bitcoin.BlockHeader) error           { return c.w.submit(h, false) }
func (c *vstubDiffChain) RetargetWithRefund(h []*bitcoin.BlockHeader) error { return c.w.submit(h, true) }

// Histories of up to `rounds` proving rounds.
func VerifC43_ProveEpochs() {
	rounds := 2
	if vThorough() {
		rounds = 3
	}
	w := &vworld{disableProxy: vBool(), maxTipCalls: rounds, maxEpochCalls: 2*rounds + 1}
	m := &bitcoinDifficultyMaintainer{
		config:   Config{DisableProxy: w.disableProxy, IdleBackOffTime: 1, RestartBackOffTime: 1},
		btcChain: w,
		chain:    &vstubDiffChain{w: w},
	}
	err := m.proveEpochs(context.Background())
	vAssert(err != nil, "proveEpochs only returns with an error")
	if w.submissions >= 2 {
		vReach("two-submissions")
	}
}

// One round with every query succeeding: headers must be submitted exactly
// when the whole header range has been mined.
func VerifC43_Liveness() {
	w := &vworld{disableProxy: vBool(), maxTipCalls: 1, maxEpochCalls: 1, ready: true, auth: true, authRefund: true}
	m := &bitcoinDifficultyMaintainer{
		config:   Config{DisableProxy: w.disableProxy, IdleBackOffTime: 1, RestartBackOffTime: 1},
		btcChain: w,
		chain:    &vstubDiffChain{w: w},
	}
	proven, err := m.proveNextEpoch(context.Background())
	_ = proven
	if err == nil {
		vReach("round-ok")
		last := (w.epoch+1)*bitcoinDifficultyEpochLength + w.proofLen - 1
		vAssert((w.submissions == 1) == (uint64(w.tip) >= last), "headers must be submitted exactly when all of them are mined")
	}
}
