package config

import (
	"strings"
	"math/rand"

	"github.com/spf13/pflag"

	commonEthereum "github.com/keep-network/keep-common/pkg/chain/ethereum"
	"github.com/keep-network/keep-core/config/network"
	"github.com/keep-network/keep-core/pkg/bitcoin"
	chainEthereum "github.com/keep-network/keep-core/pkg/chain/ethereum"
)

// the embedded default lists are data; what matters is which network's list is used
func vReadPeers(n network.Type) ([]string, error) {
	return []string{"/peer/of/" + n.String() + "/1", "/peer/of/" + n.String() + "/2"}, nil
}
func vReadElectrumUrls(n bitcoin.Network) ([]string, error) {
	return []string{"tcp://electrum-" + n.String() + "-1", "tcp://electrum-" + n.String() + "-2"}, nil
}

var vContracts = []string{
	chainEthereum.RandomBeaconContractName, chainEthereum.WalletRegistryContractName, chainEthereum.BridgeContractName,
	chainEthereum.MaintainerProxyContractName, chainEthereum.LightRelayContractName, chainEthereum.LightRelayMaintainerProxyContractName,
	chainEthereum.TokenStakingContractName, chainEthereum.WalletProposalValidatorContractName,
}

const vExplicitAddr = "0x1111111111111111111111111111111111111111"

func VerifC44_Resolution() {
	flags := pflag.NewFlagSet("verif", pflag.ContinueOnError)
	testnet, developer := vBool(), vBool()
	flags.Bool(network.Testnet.String(), testnet, "")
	flags.Bool(network.Developer.String(), developer, "")
	c := &Config{}
	setPeers, setElectrum := vBool(), vBool()
	if setPeers {
		c.LibP2P.Peers = []string{"/my/own/peer"}
	}
	if setElectrum {
		c.Bitcoin.Electrum.URL = "tcp://my-own-electrum"
	}
	var explicit [8]bool
	for i := range vContracts {
		if vBool() {
			explicit[i] = true
			if c.Ethereum.ContractAddresses == nil {
				c.Ethereum.ContractAddresses = map[string]string{}
			}
			c.Ethereum.SetContractAddress(vContracts[i], vExplicitAddr)
		}
	}
	net, err := c.resolveNetworks(flags)
	vAssert(err == nil, "flag lookup failed")
	want := network.Mainnet
	if testnet {
		want = network.Testnet
	} else if developer {
		want = network.Developer
	}
	vAssert(net == want, "wrong network selected from the flags")
	vAssert(c.Ethereum.Network == want.Ethereum() && c.Bitcoin.Network == want.Bitcoin(), "Ethereum and Bitcoin networks do not belong to the same selected network")
	pairOK := (c.Ethereum.Network == commonEthereum.Mainnet && c.Bitcoin.Network == bitcoin.Mainnet) ||
		(c.Ethereum.Network == commonEthereum.Sepolia && c.Bitcoin.Network == bitcoin.Testnet) ||
		(c.Ethereum.Network == commonEthereum.Developer && c.Bitcoin.Network == bitcoin.Regtest)
	vAssert(pairOK, "Ethereum and Bitcoin networks are not a matching pair")
	vAssert(c.resolvePeers(net) == nil, "peer resolution failed")
	vAssert(c.resolveElectrum(rand.New(rand.NewSource(int64(vU8())))) == nil, "electrum resolution failed")
	c.resolveContractsAddresses()
	vReach("resolved")
	if setPeers {
		vAssert(len(c.LibP2P.Peers) == 1 && c.LibP2P.Peers[0] == "/my/own/peer", "explicitly configured peers were overridden")
	} else if net == network.Developer {
		vAssert(len(c.LibP2P.Peers) == 0, "default peers filled in for the developer network")
	} else {
		vReach("default-peers")
		vAssert(len(c.LibP2P.Peers) == 2 && c.LibP2P.Peers[0] == "/peer/of/"+net.String()+"/1", "default peers of another network were used")
	}
	if setElectrum {
		vAssert(c.Bitcoin.Electrum.URL == "tcp://my-own-electrum", "explicitly configured Electrum URL was overridden")
	} else if net == network.Developer {
		vAssert(c.Bitcoin.Electrum.URL == "", "default Electrum URL filled in for regtest")
	} else {
		u := c.Bitcoin.Electrum.URL
		p := "tcp://electrum-" + c.Bitcoin.Network.String()
		vAssert(u == p+"-1" || u == p+"-2", "Electrum default is not one of the selected network's servers")
	}
	for i, name := range vContracts {
		a, aerr := c.Ethereum.ContractAddress(name)
		if explicit[i] {
			vAssert(aerr == nil && a.Hex() == vExplicitAddr, "an explicitly configured contract address was overridden")
		}
	}
}

// VerifC44_Contracts: one contract address in each state (left unset, a
// well-formed address, a value with an arbitrary byte in it — well-formed or
// not), the others all set or all unset: whatever was written explicitly is
// still there after resolution, character for character.
func VerifC44_Contracts() {
	c := &Config{}
	k := vRange(0, 7)
	state := vRange(0, 2)
	others := vBool()
	odd := []byte(vExplicitAddr)
	odd[10] = vU8()
	vals := [8]string{}
	for i := range vContracts {
		switch {
		case i == k && state == 1:
			vals[i] = vExplicitAddr
		case i == k && state == 2:
			vals[i] = string(odd)
		case i != k && others:
			vals[i] = "0x2222222222222222222222222222222222222222"
		}
		if vals[i] != "" {
			if c.Ethereum.ContractAddresses == nil {
				c.Ethereum.ContractAddresses = map[string]string{}
			}
			c.Ethereum.SetContractAddress(vContracts[i], vals[i])
		}
	}
	c.resolveContractsAddresses()
	vReach("resolved")
	for i, name := range vContracts {
		got := c.Ethereum.ContractAddresses[strings.ToLower(name)]
		if vals[i] != "" {
			if i == k && state == 2 {
				vReach("odd-explicit")
			}
			vAssert(got == vals[i], "an explicitly configured contract address was replaced")
		}
	}
}
