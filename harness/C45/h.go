package generator

import (
	"context"
	"sync"
)

type vworker struct {
	mu   sync.Mutex
	ctxs []context.Context // contexts of the work invocations in progress
}

// work blocks until its context is cancelled (a unit of background work that
// is only interrupted by the scheduler's stop signal).
func (w *vworker) work(ctx context.Context) {
	w.mu.Lock()
	w.ctxs = append(w.ctxs, ctx)
	w.mu.Unlock()
	<-ctx.Done()
	w.mu.Lock()
	for i, c := range w.ctxs {
		if c == ctx {
			w.ctxs = append(w.ctxs[:i:i], w.ctxs[i+1:]...)
			break
		}
	}
	w.mu.Unlock()
}

// active: work invocations in progress that have not been told to stop
// (stopping is asynchronous, so an invocation whose context is already
// cancelled does not count as running).
func (w *vworker) active() int {
	w.mu.Lock()
	defer w.mu.Unlock()
	n := 0
	for _, c := range w.ctxs {
		if c.Err() == nil {
			n++
		}
	}
	return n
}

// Histories of {Lock_p, Unlock_p, scheduler check} over two protocol latches
// and two workers.
func VerifC45_Histories() {
	k := 4
	if vThorough() {
		k = 6
	}
	s := &Scheduler{}
	latches := []*ProtocolLatch{NewProtocolLatch(), NewProtocolLatch()}
	s.RegisterProtocol(latches[0])
	s.RegisterProtocol(latches[1])
	workers := []*vworker{{}, {}}
	s.compute(workers[0].work)
	s.compute(workers[1].work)
	vQuiesce()
	held := [2]int{}
	for step := 0; step < k; step++ {
		op := vU8()
		vAssume(op <= 4)
		switch op {
		case 0, 1:
			latches[op].Lock()
			held[op]++
		case 2, 3:
			p := int(op) - 2
			vAssume(held[p] > 0) // Unlock without Lock panics by contract
			latches[p].Unlock()
			held[p]--
		case 4:
			s.checkProtocols()
			vQuiesce()
			vReach("checked")
			executing := held[0] > 0 || held[1] > 0
			vAssert(latches[0].IsExecuting() == (held[0] > 0) && latches[1].IsExecuting() == (held[1] > 0), "a latch reports not executing while a nested execution is still running (or the reverse)")
			if executing {
				vReach("paused")
				vAssert(workers[0].active() == 0 && workers[1].active() == 0, "background work still running after a scheduler check that saw a protocol executing")
			} else {
				vReach("running")
				vAssert(workers[0].active() == 1 && workers[1].active() == 1, "background work not resumed (or started twice) after a scheduler check that saw no protocol executing")
			}
		}
	}
	// let every worker loop end
	latches[0].Lock()
	s.checkProtocols()
	vQuiesce()
}

// Concurrent Lock/Unlock/check: serialises to a sequential outcome, no data race.
func VerifC45_Concurrent() {
	s := &Scheduler{}
	l := NewProtocolLatch()
	s.RegisterProtocol(l)
	w := &vworker{}
	s.compute(w.work)
	var wg sync.WaitGroup
	wg.Add(2)
	go func() { l.Lock(); s.checkProtocols(); l.Unlock(); wg.Done() }()
	go func() { s.checkProtocols(); wg.Done() }()
	wg.Wait()
	s.checkProtocols()
	vQuiesce()
	vReach("settled")
	vAssert(!l.IsExecuting() && w.active() == 1, "after all protocols ended and a check ran, background work must be running exactly once")
	l.Lock()
	s.checkProtocols()
	vQuiesce()
	vAssert(w.active() == 0, "background work not stopped")
}
