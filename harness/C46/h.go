package tbtc

import (
	"context"
	"math/big"
	"time"

	"github.com/ipfs/go-log/v2"
	"github.com/keep-network/keep-core/pkg/bitcoin"
	"github.com/keep-network/keep-core/pkg/tecdsa"
)

type vDeadlines struct {
	signStart   uint64
	signCalled  bool
	waits       []uint64
	broadcastTO time.Duration
	broadcast   bool
}

type vSigningExecutor struct{ d *vDeadlines }

func (s *vSigningExecutor) signBatch(ctx context.Context, msgs []*big.Int, start uint64) ([]*tecdsa.Signature, error) {
	s.d.signStart, s.d.signCalled = start, true
	return nil, nil
}

var vD *vDeadlines

// replaces walletTransactionExecutor.broadcastTransaction (Bitcoin network I/O)
func vBroadcast(wte *walletTransactionExecutor, l log.StandardLogger, tx *bitcoin.Transaction, timeout, checkDelay time.Duration) error {
	vD.broadcastTO, vD.broadcast = timeout, true
	return nil
}

const vBlockTime = 12 * time.Second // nominal host-chain block time

// vCheck: the deadlines an action used, against its proposal validity window
func vCheck(d *vDeadlines, start, expiry, margin uint64, what string) {
	vAssert(d.signStart >= start, what+": signing started before the action's start block")
	vAssert(len(d.waits) == 1 && d.waits[0] == expiry-margin, what+": signing must end exactly the documented safety margin before the proposal expires")
	timeout := d.waits[0]
	vAssert(timeout > d.signStart && timeout-d.signStart >= uint64(signingAttemptsLimit)*uint64(signingAttemptMaximumBlocks()), what+": the signing window is shorter than one complete signing retry loop of a single message")
	if d.broadcast {
		vReach(what + "-broadcast")
		vAssert(uint64(d.broadcastTO/vBlockTime) <= margin, what+": broadcasting may run past the proposal expiry at the nominal block time")
	}
}

func vRun(what string, validity, margin uint64, mk func(start, expiry uint64, se walletSigningExecutor, wf waitForBlockFn) walletAction) {
	start := vU64()
	vAssume(start < 1<<63) // block numbers whose start + validity wraps around uint64 are outside the claim
	expiry := start + validity // as processCoordinationResult computes it
	d := &vDeadlines{}
	vD = d
	wf := func(ctx context.Context, b uint64) error { d.waits = append(d.waits, b); return nil }
	a := mk(start, expiry, &vSigningExecutor{d: d}, wf)
	err := a.execute()
	vQuiesce()
	if !d.signCalled {
		// a helper failed before signing, or the expiry guard refused a wrapped-around window
		vAssert(err != nil, what+": no signing and no error")
		return
	}
	vReach(what + "-signed")
	vAssert(expiry >= margin && start <= expiry, what+": signing was attempted with a wrapped-around validity window")
	vCheck(d, start, expiry, margin, what)
}

func VerifC46_Redemption() {
	p := &RedemptionProposal{RedemptionTxFee: big.NewInt(10)}
	vRun("redemption", p.ValidityBlocks(), redemptionSigningTimeoutSafetyMarginBlocks, func(s, e uint64, se walletSigningExecutor, wf waitForBlockFn) walletAction {
		return newRedemptionAction(nil, nil, nil, wallet{}, se, p, s, e, wf)
	})
}
func VerifC46_DepositSweep() {
	p := &DepositSweepProposal{SweepTxFee: big.NewInt(10)}
	vRun("sweep", p.ValidityBlocks(), depositSweepSigningTimeoutSafetyMarginBlocks, func(s, e uint64, se walletSigningExecutor, wf waitForBlockFn) walletAction {
		return newDepositSweepAction(nil, nil, nil, wallet{}, se, p, s, e, wf)
	})
}
func VerifC46_MovingFunds() {
	p := &MovingFundsProposal{MovingFundsTxFee: big.NewInt(10), TargetWallets: [][20]byte{{1}}}
	vRun("movingfunds", p.ValidityBlocks(), movingFundsSigningTimeoutSafetyMarginBlocks, func(s, e uint64, se walletSigningExecutor, wf waitForBlockFn) walletAction {
		return newMovingFundsAction(nil, nil, nil, wallet{}, se, p, s, e, wf)
	})
}
func VerifC46_MovedFundsSweep() {
	p := &MovedFundsSweepProposal{SweepTxFee: big.NewInt(10)}
	vRun("movedfundssweep", p.ValidityBlocks(), movedFundsSweepSigningTimeoutSafetyMarginBlocks, func(s, e uint64, se walletSigningExecutor, wf waitForBlockFn) walletAction {
		return newMovedFundsSweepAction(nil, nil, nil, wallet{}, se, p, s, e, wf)
	})
}

// Heartbeat: signing ends at expiry-300, the inactivity claim at expiry-25,
// both inside the validity window and the claim after the signing window.
func VerifC46_HeartbeatConstants() {
	p := &HeartbeatProposal{}
	v := p.ValidityBlocks()
	vAssert(heartbeatInactivityClaimValidityBlocks < v && heartbeatTimeoutSafetyMarginBlocks < heartbeatInactivityClaimValidityBlocks, "heartbeat claim window must lie after the signing window and before the expiry")
	vAssert(v-heartbeatInactivityClaimValidityBlocks >= uint64(signingAttemptsLimit)*uint64(signingAttemptMaximumBlocks()), "heartbeat signing window is shorter than one complete signing retry loop")
	vReach("heartbeat")
}
