package entry

import (
	log "github.com/ipfs/go-log/v2"
	"github.com/keep-network/keep-core/pkg/chain"
	"github.com/keep-network/keep-core/pkg/protocol/group"
)

// vstubBlockCounter records the block height the submitter asks to wait for.
type vstubBlockCounter struct {
	chain.BlockCounter
	requested []uint64
}

func (b *vstubBlockCounter) BlockHeightWaiter(n uint64) (<-chan uint64, error) {
	b.requested = append(b.requested, n)
	ch := make(chan uint64, 1)
	ch <- n
	close(ch)
	return ch, nil
}

// Relay entry: for every entry value and group size, two different members
// get different submission slots and every slot lies strictly before the
// relay entry timeout (config contract: timeout = groupSize * step blocks
// after the start block).
func VerifC47_RelayEntrySlots() {
	maxN := 24
	if vThorough() {
		maxN = 255
	}
	n := vRange(1, maxN)
	e0, e1 := vU8(), vU8()
	m1, m2 := vU8(), vU8()
	vAssume(m1 >= 1 && int(m1) <= n)
	vAssume(m2 >= 1 && int(m2) <= n)
	vAssume(m1 != m2)
	step := uint64(vRange(1, 3)) // concrete: symbolic×symbolic 64-bit multiplication is out of reach
	start := uint64(vU32())
	bc := &vstubBlockCounter{}
	r1 := &relayEntrySubmitter{logger: log.Logger("verif"), blockCounter: bc, index: group.MemberIndex(m1)}
	r2 := &relayEntrySubmitter{logger: log.Logger("verif"), blockCounter: bc, index: group.MemberIndex(m2)}
	if _, err := r1.waitForSubmissionEligibility([]byte{e0, e1}, start, n, step); err != nil {
		vAssert(false, "unexpected error")
	}
	if _, err := r2.waitForSubmissionEligibility([]byte{e0, e1}, start, n, step); err != nil {
		vAssert(false, "unexpected error")
	}
	vReach("both-waiters-requested")
	h1, h2 := bc.requested[0], bc.requested[1]
	vObserve("h1", h1)
	vObserve("h2", h2)
	vAssert(h1 != h2, "two members share a relay entry submission slot")
	timeout := start + uint64(n)*step
	vAssert(h1 >= start && h1 < timeout, "relay entry submission slot not before the entry timeout")
}
