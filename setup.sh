#!/bin/sh
set -e
cd /verif/engine
export GOFLAGS=-mod=mod GOPROXY=off GOSUMDB=off GOTOOLCHAIN=local
mkdir -p /verif/bin /verif/evidence /verif/replays
go build -o /verif/bin/gosym .
