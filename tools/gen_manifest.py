#!/usr/bin/env python3
"""Regenerate /verif/MANIFEST.json from harness/<ID>/meta.json files."""
import json, os, glob
root = os.path.dirname(os.path.dirname(os.path.abspath(__file__)))
ids = [json.loads(l)['id'] for l in open(os.path.join(root, 'properties.jsonl'))]
na_reasons = {
 "C04": "254-bit modular square roots / 500-bit exponentiation / hash-to-curve over math/big: no available solver decides them, the constants cannot be shrunk consistently, and a UF abstraction yields unreplayable models (DESIGN §3 C04)",
 "C27": "acceptance is defined by btcd's script interpreter + secp256k1 ECDSA over double-SHA-256 sighashes; none is encodable and stubbing all three leaves nothing of the property (DESIGN §3 C27)",
 "C41": "every clause is a property of btcec ECDH, SHA-256 and NaCl secretbox inside dependencies; the repository code is three thin wrappers (DESIGN §3 C41)",
}
base = json.load(open('/root/.vp/BASELINE.json'))
checks, claimed = [], []
for i in ids:
    mp = os.path.join(root, 'harness', i, 'meta.json')
    if not os.path.exists(mp):
        continue
    m = json.load(open(mp))
    if m.get('disabled'):
        na_reasons.setdefault(i, m['disabled'])
        continue
    claimed.append(i)
    c = {
     "property_id": i,
     "quick_cmd": "./check %s --tier quick" % i,
     "thorough_cmd": "./check %s --tier thorough" % i,
     "evidence_file": "/verif/evidence/%s.json" % i,
     "replay_cmd_template": "./check %s --replay {path}" % i,
     "engine": "gosym",
     "level_claimed": {"category": "model_checking", "text": m['level_text'], "design_ref": m.get('design_ref', 'DESIGN.md §3 ' + i)},
     "level_note": m['level_note'],
     "technique": m.get('technique', "bounded symbolic execution of the real functions' go/ssa form; every assertion decided by z3 (SMT-LIB2) over path-condition ∧ ¬assertion; counterexamples replayed natively via go test overlays"),
    }
    checks.append(c)
na = [{"property_id": i, "reason": na_reasons.get(i, "no check built yet with this technique (time); not claimed")} for i in ids if i not in claimed]
man = {
 "version": 1,
 "setup_cmd": "./setup.sh",
 "hooks": {"guard": "verif", "enable": "none needed: harnesses are injected through go/packages and go build overlays; /repo carries no hooks", "baseline_off_cmd": base['cmd'], "source_commits": [], "add_only": True},
 "engines": [{"name": "gosym", "path": "engine", "serves_properties": claimed, "kind_free_text": "symbolic executor for Go SSA (golang.org/x/tools/go/ssa) written for this task: path-forking by re-execution, SMT-LIB2 to a persistent z3, schedule choices as decisions, native replay through go test -overlay"}],
 "checks": checks,
 "notes": "All claimed properties are decided by solver-based bounded checking of the real code (see DESIGN.md). exit 0 = held within bounds, 1 = VIOLATION (replayed), 2 = INCONCLUSIVE.",
 "not_applicable": na,
}
json.dump(man, open(os.path.join(root, 'MANIFEST.json'), 'w'), indent=1)
print("claimed:", len(claimed), "not applicable:", len(na))
