#!/usr/bin/env python3
"""usage: mutate.py <ID> <file-relative-to-/repo> <old> <new> [--tier t]
Applies one textual mutation to /repo, runs ./check ID, restores the file."""
import sys, subprocess, os
pid, f, old, new = sys.argv[1:5]
tier = 'quick'
if '--tier' in sys.argv: tier = sys.argv[sys.argv.index('--tier')+1]
path = os.path.join('/repo', f)
src = open(path).read()
if src.count(old) < 1:
    print("MUTATE: pattern not found"); sys.exit(3)
try:
    open(path, 'w').write(src.replace(old, new, 1))
    r = subprocess.run(['./check', pid, '--tier', tier], cwd='/verif', capture_output=True, text=True, env=dict(os.environ, VERIF_NOEVIDENCE='1'))
    lines = [l for l in (r.stdout + r.stderr).splitlines() if l.strip()]
    print('\n'.join(lines[-8:]))
    print("MUTATE exit=%d %s" % (r.returncode, "CAUGHT" if r.returncode == 1 else "MISSED" if r.returncode == 0 else "INCONCLUSIVE"))
finally:
    open(path, 'w').write(src)
    subprocess.run(['git', '-C', '/repo', 'checkout', '--', f])
