#!/usr/bin/env python3
import json, sys
for l in open('/verif/properties.jsonl'):
    d = json.loads(l)
    if d['id'] in sys.argv[1:]:
        print(d['id'], '|', d['title'])
        print('STATEMENT:', d['statement'])
        print('QUANT:', d['quantifier']['text'])
        print('WHY:', d['why_tests_cant'])
        a = d['anchors']
        print('FILES:', a.get('files'))
        for m in a.get('mechanism', []): print('  MECH:', m['name'], '@', m['where'])
        for m in a.get('state', []): print('  STATE:', m['name'], '-', m['meaning'], '@', m['where'])
        print('OBSERVE:', a.get('observe_at'))
        print('HOOK:', a.get('hook_needed'))
        print()
