#!/bin/sh
# runs every claimed quick check sequentially; prints one line per property
cd /verif
for id in $(python3 -c "import json;print(' '.join(c['property_id'] for c in json.load(open('MANIFEST.json'))['checks']))"); do
  s=$(date +%s)
  out=$(VERIF_NOEVIDENCE=${NOEV:-} timeout 1500 ./check $id 2>&1 | tail -1)
  echo "$id exit=$? $(( $(date +%s) - s ))s $out" | cut -c1-200
done
