#!/usr/bin/env python3
"""usage: seed_eval.py <PROPERTY> <worktree> <pkgdir> [test-run-regex]
Confirms a seeded change produced in <worktree> (with _out/patch.diff and _out/demo_test.go):
 1. in a fresh scratch worktree of /repo HEAD: demo passes without the patch, fails with it,
    the package builds and its existing tests pass with the patch;
 2. applies the patch to /repo, runs ./check <PROPERTY>, reverts /repo;
stores everything under /verif/seeded/<PROPERTY>/."""
import sys, subprocess, os, json, shutil, time
pid, wt, pkg = sys.argv[1:4]
runre = sys.argv[4] if len(sys.argv) > 4 else '.'
env = dict(os.environ, GOFLAGS='-mod=mod', GOPROXY='off', GOSUMDB='off', GOTOOLCHAIN='local')
out = os.path.join(wt, '_out')
dst = '/verif/seeded/%s%s' % (pid, os.environ.get('SEED_TAG', ''))  # SEED_TAG=-2 for a second change against the same property
os.makedirs(dst, exist_ok=True)
for f in ('patch.diff', 'demo_test.go', 'notes.md'):
    if os.path.exists(os.path.join(out, f)) and os.path.abspath(out) != os.path.abspath(dst):
        shutil.copy(os.path.join(out, f), os.path.join(dst, f))
def sh(cmd, cwd, timeout=1500):
    r = subprocess.run(cmd, shell=True, cwd=cwd, env=env, capture_output=True, text=True, timeout=timeout)
    return r.returncode, (r.stdout + r.stderr)
scratch = '/tmp/seedchk-%s' % pid
res_dir = dst
sh('git -C /repo worktree remove --force %s' % scratch, '/')
rc, o = sh('git -C /repo worktree add -q --detach %s HEAD' % scratch, '/')
res = {'property': pid, 'package': pkg}
try:
    shutil.copy(os.path.join(dst, 'demo_test.go'), os.path.join(scratch, pkg, 'zz_demo_test.go'))
    rc0, o0 = sh("go test -count=1 -vet=off -run 'Demo|demo' ./%s/" % pkg, scratch)
    res['demo_without_patch'] = 'pass' if rc0 == 0 else 'FAIL'
    rc, o = sh('git apply %s' % os.path.join(dst, 'patch.diff'), scratch)
    res['patch_applies'] = rc == 0
    rcb, ob = sh('go build ./pkg/... ./cmd/...', scratch)
    res['builds_with_patch'] = rcb == 0
    rc1, o1 = sh("go test -count=1 -vet=off -run 'Demo|demo' ./%s/" % pkg, scratch)
    res['demo_with_patch'] = 'fail' if rc1 != 0 else 'PASS'
    os.remove(os.path.join(scratch, pkg, 'zz_demo_test.go'))
    rc2, o2 = sh("go test -count=1 -vet=off -run '%s' ./%s/ 2>&1 | tail -15" % (runre, pkg), scratch)
    res['existing_tests_with_patch'] = 'pass' if ('FAIL' not in o2.replace('TestWatchCoordinationWindows', '')) else 'FAIL: ' + o2[-600:]
finally:
    sh('git -C /repo worktree remove --force %s' % scratch, '/')
# run the check against /repo with the patch applied
rc, o = sh('git -C /repo apply %s' % os.path.join(dst, 'patch.diff'), '/')
try:
    t0 = time.time()
    r = subprocess.run(['./check', pid], cwd='/verif', capture_output=True, text=True, env=dict(env, VERIF_NOEVIDENCE='1'), timeout=3000)
    res['check_exit'] = r.returncode
    res['check_wall_s'] = round(time.time() - t0, 1)
    res['check_output_tail'] = [l for l in (r.stdout + r.stderr).splitlines() if l.strip()][-6:]
    res['detected'] = r.returncode == 1
finally:
    sh('git -C /repo checkout -- .', '/')
res['ran'] = ["go test -run Demo in a scratch worktree without and with patch.diff", "go build ./pkg/... ./cmd/... with the patch", "existing tests of the package with the patch (run regex %s)" % runre, "git -C /repo apply patch.diff; ./check %s; git -C /repo checkout -- ." % pid]
json.dump(res, open(os.path.join(dst, 'eval.json'), 'w'), indent=1)
print(json.dumps(res, indent=1))
