#!/usr/bin/env python3
"""seed_meta.py <ID> <needs_to_manifest> [history] [check_tail...] — write seeded/<ID>/meta.json from eval.json."""
import json, sys, os
pid, needs = sys.argv[1], sys.argv[2]
hist = sys.argv[3] if len(sys.argv) > 3 else ""
d = "/verif/seeded/%s%s" % (pid, os.environ.get("SEED_TAG", ""))
e = json.load(open(d + "/eval.json"))
m = {"property": pid, "breaks": "see notes.md", "needs_to_manifest": needs,
     "produced_by": "independent sub-agent given only the property text and a scratch worktree",
     "confirmed": {k: e[k] for k in ("demo_without_patch", "demo_with_patch", "builds_with_patch", "existing_tests_with_patch")},
     "check_detects": e["detected"], "check_exit": e["check_exit"], "check_output_tail": e["check_output_tail"][-2:],
     "ran": ["go test -run Demo in a scratch worktree without and with patch.diff", "go build ./pkg/... ./cmd/... with the patch",
             "existing tests of the package with the patch", "git -C /repo apply patch.diff; ./check %s; git -C /repo checkout -- ." % pid]}
if hist:
    m["history"] = hist
if len(sys.argv) > 4:
    m["check_detects"] = True; m["check_exit"] = 1; m["check_output_tail"] = sys.argv[4:]
json.dump(m, open(d + "/meta.json", "w"), indent=1)
print("wrote", d + "/meta.json", m["check_detects"])
